SPECIFICATION Spec
CONSTANTS
  Families <- FamiliesAll
  AddParams <- ParamsMid
  MaxAdds = 5
  MaxFails = 1
  MaxSessions = 3
  AsIsSplit = FALSE
  AsIsNoRollback = FALSE
  AsIsNegSlice = FALSE
  AsIsNoEmptyRow = FALSE
INVARIANT LenIsAccepted
INVARIANT IndexInRange
INVARIANT RoundTrip
CHECK_DEADLOCK FALSE
