SPECIFICATION Spec
CONSTANTS
  MaxObjs = 9
  Terminal = {}
  StrSizes = {1, 2}
  Aboves = {TRUE, FALSE}
  Ops <- OpsAll
  AsIsIAdd = FALSE
CONSTRAINT LevelBoundG
INVARIANT EachOnce
INVARIANT PlusIsConcat
INVARIANT SumIsConcat
INVARIANT NoAntennaAboveIce
INVARIANT TriggeredIffAnyHit
INVARIANT ClearAll
CHECK_DEADLOCK FALSE
