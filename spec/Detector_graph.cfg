SPECIFICATION Spec
CONSTANTS
  MaxObjs = 9
  AsIsIAdd = FALSE
CONSTRAINT LevelBoundG
INVARIANT EachOnce
INVARIANT PlusIsConcat
INVARIANT SumIsConcat
INVARIANT NoAntennaAboveIce
INVARIANT TriggeredIffAnyHit
INVARIANT ClearAll
CHECK_DEADLOCK FALSE
