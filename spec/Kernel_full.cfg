SPECIFICATION SpecMC
CONSTANTS
  Scenarios = {}
  WeightSet <- WeightsSmall
  MaxP = 2
  MaxA = 2
  NsolVals = {0, 1, 2}
INVARIANT OneSignalPerSolution
INVARIANT OffConeOnlySubstitutes
INVARIANT PathsPolsAligned
INVARIANT ModelCalledUnlessOff
INVARIANT WriterGetsWhatAntennasGot
INVARIANT WriterOnlyIfGiven
INVARIANT TriggerIsFunctionOfAntennas
INVARIANT ReturnShape
CHECK_DEADLOCK FALSE
