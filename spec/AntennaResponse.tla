--------------------------- MODULE AntennaResponse ---------------------------
(* C08 (discrete core) -- what an antenna makes of an incoming signal.

   A case: a proper rotation of the lattice (one of the 24 signed permutation matrices with
   determinant +1), a base arrival direction and polarization (integer vectors), the value type of
   the signal and the antenna class.  The antenna's axes, the arrival direction and the
   polarization are all rotated by the same rotation.  The arrival direction seen in the antenna's
   own frame, Frame = -(d.x, d.y, d.z) with y = z cross x, and the projection of the polarization on
   the antenna axis must not depend on the rotation (Covariant): this is the property's rotation
   clause, exact on the lattice.  Factor is the value-type decision table.                      *)
EXTENDS Integers, Sequences, FiniteSets, TLC

CONSTANTS Dirs, Pols, VTypes, Classes, Rot2

VARIABLES cs, last
vars == <<cs, last>>

Perms == {<<1, 2, 3>>, <<1, 3, 2>>, <<2, 1, 3>>, <<2, 3, 1>>, <<3, 1, 2>>, <<3, 2, 1>>}
Signs == {-1, 1} \X {-1, 1} \X {-1, 1}
(* rotation r = [p, s]: (R v)[i] = s[i] * v[p[i]] *)
Apply(r, v) == <<r.s[1] * v[r.p[1]], r.s[2] * v[r.p[2]], r.s[3] * v[r.p[3]]>>
Dot(a, b) == a[1] * b[1] + a[2] * b[2] + a[3] * b[3]
Cross(a, b) == <<a[2] * b[3] - a[3] * b[2], a[3] * b[1] - a[1] * b[3], a[1] * b[2] - a[2] * b[1]>>
E1 == <<1, 0, 0>>  E2 == <<0, 1, 0>>  E3 == <<0, 0, 1>>
Det(r) == Dot(Apply(r, E1), Cross(Apply(r, E2), Apply(r, E3)))
Rotations == {r \in [p : Perms, s : Signs] : Det(r) = 1}

Frame(z, x, d) == LET y == Cross(z, x) IN <<0 - Dot(d, x), 0 - Dot(d, y), 0 - Dot(d, z)>>
Factor(vt) == CASE vt = "voltage" -> "gain" [] vt = "field" -> "gain_over_antenna_factor" [] OTHER -> "raises"

Cases == [rot : Rotations, d : Dirs, p : Pols, vt : VTypes, cls : Classes]

Init == cs \in Cases /\ last = [op |-> "Init"]
Respond == /\ last.op = "Init"
           /\ LET z == Apply(cs.rot, E3)  x == Apply(cs.rot, E1)
                  d == Apply(cs.rot, cs.d)  p == Apply(cs.rot, cs.p)
              IN last' = [op |-> "Respond", z |-> z, x |-> x, d |-> d, p |-> p,
                          frame |-> Frame(z, x, d), polz |-> Dot(p, z), polx |-> Dot(p, x), factor |-> Factor(cs.vt)]
           /\ UNCHANGED cs
(* the same antenna object is then re-oriented to the axes of a second rotation while direction and polarization
   stay: the response must follow the new axes (no state of the old orientation may survive) *)
Reorient(r2) == /\ last.op = "Respond"
                /\ LET z == Apply(r2, E3)  x == Apply(r2, E1) IN
                   last' = [op |-> "Reorient", z |-> z, x |-> x, d |-> last.d, p |-> last.p,
                            frame |-> Frame(z, x, last.d), polz |-> Dot(last.p, z), polx |-> Dot(last.p, x), factor |-> last.factor]
                /\ UNCHANGED cs
Next == Respond \/ \E r2 \in Rot2 : Reorient(r2)
Spec == Init /\ [][Next]_vars

GroupSize == Cardinality(Rotations) = 24
Covariant == last.op = "Respond" => /\ last.frame = Frame(E3, E1, cs.d)
                                    /\ last.polz = Dot(cs.p, E3)
AxesOrthonormal == last.op = "Respond" => Dot(last.z, last.x) = 0 /\ Dot(last.z, last.z) = 1 /\ Dot(last.x, last.x) = 1
FieldDividedExactly == last.op = "Respond" => (last.factor = "gain_over_antenna_factor" <=> cs.vt = "field")
=============================================================================
