SPECIFICATION Spec
CONSTANTS
  Families <- FamiliesAll
  AddParams <- ParamsSmall
  MaxAdds = 3
  MaxFails = 1
  MaxSessions = 2
  AsIsSplit = FALSE
  AsIsNoRollback = FALSE
  AsIsNegSlice = FALSE
  AsIsNoEmptyRow = FALSE
INVARIANT LenIsAccepted
INVARIANT IndexInRange
INVARIANT RoundTrip
PROPERTY RejectedAddIsInvisible
CHECK_DEADLOCK FALSE
