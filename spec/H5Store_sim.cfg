SPECIFICATION Spec
CONSTANTS
  Families <- FamiliesAll
  AddParams <- ParamsAll
  MaxAdds = 6
  MaxFails = 3
  MaxSessions = 3
  AsIsSplit = FALSE
  AsIsNoRollback = FALSE
  AsIsNegSlice = FALSE
  AsIsNoEmptyRow = FALSE
INVARIANT LenIsAccepted
INVARIANT IndexInRange
INVARIANT RoundTrip
PROPERTY RejectedAddIsInvisible
CHECK_DEADLOCK FALSE
