SPECIFICATION Spec
CONSTANTS
  Impls = {"full", "fft"}
  Bands = {1}
  AmpSpecs = {"const"}
  Uniqs = {2}
  Lengths = {16}
  RmsModes = {"rms"}
  Windows <- WindowsSmall
  Shifts <- ShiftsMC
  MaxObjs = 4
  MaxLevel = 5
CONSTRAINT LevelBound
INVARIANT SharedTicksAgree
INVARIANT BasesCounted
PROPERTY ShiftKeepsSamples
PROPERTY OthersUntouched
CHECK_DEADLOCK FALSE
