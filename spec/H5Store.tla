------------------------------ MODULE H5Store ------------------------------
(* C11 / C12 -- the HDF5 event store of pyrex/io.py.

   Writer (HDF5Writer.add and its _write_* stages, append sessions), the file
   (per-table row sequences + the event index table + counters), and the reader
   (EventIterator chunk loading / splitting, HDF5Reader.__getitem__ index and
   slice dispatch).  The operators mirror io.py one to one: counters are bumped
   where the code bumps them, datasets grow where the code resizes them, index
   entries are written where the code writes them, and a rejected add() leaves
   exactly the partial effects the code leaves.

   A row of a table is a tag <<k, j>> (j-th row written by the k-th add call) or
   <<0, 0>> for a row that exists but was never (completely) written.  What the
   k-th add records is Recorded(c, k, p); the driver maps tags to concrete data.

   AsIs* constants switch individual operators back to the behaviour of the
   code before the repairs (defects D3, D4, D5) so that TLC regenerates the
   counterexamples; all FALSE = the repaired code.                              *)
EXTENDS Integers, Sequences, FiniteSets, TLC

CONSTANTS Families,        \* set of option records [write |-> SUBSET Kinds, trigOnly |-> SUBSET Kinds]
          AddParams,       \* set of add() parameterisations (records, see below)
          MaxAdds,         \* bound on add() calls (accepted + rejected)
          MaxFails,        \* bound on rejected add() calls
          MaxSessions,     \* bound on writer sessions
          AsIsSplit,       \* D3: EventIterator._load_data splits the loaded rows sequentially
          AsIsNoRollback,  \* D5: a rejected add() leaves its index row behind
          AsIsNegSlice,    \* D4: __getitem__(slice) computes slice_range from raw (negative) bounds
          AsIsNoEmptyRow   \* D17: an add() that writes no table creates no index row

Kinds  == {"particles", "triggers", "antenna_triggers", "rays", "noise", "waveforms"}
TableSet == {"particles_meta", "triggers", "mc_triggers", "rays_meta", "noise", "waveforms"}

(* p \in AddParams:
     np       1..   number of particles
     trig     BOOLEAN global trigger
     form     "bool" | "dict" | "dictx" (extra scalar key) | "dictl" (extra per-waveform list)
              | "dictshort" (extra list shorter than the number of waveforms)
              | "badtype" (not bool / dict) | "noglobal" (dict without 'global') | "none"
     nw       0..   max number of waveforms over the antennas
     nr       0..   max number of ray paths over the antennas
     rays     "ok" | "none" (ray_paths=None) | "badshape" (len(polarizations) # len(detector))
     pbad     BOOLEAN a particle attribute that is neither string nor scalar            *)

VARIABLES c,        \* the writer's options (chosen once)
          F,        \* the file + writer counters
          w,        \* writer session: [open, hasDet, n]
          acc,      \* ghost: accepted adds, in order: <<[k, p]>>
          nadd, nfail, last
vars == <<c, F, w, acc, nadd, nfail, last>>

Min(a, b) == IF a < b THEN a ELSE b
Max(a, b) == IF a > b THEN a ELSE b
ZeroRow == [t \in TableSet |-> <<0, 0>>]
Blank == <<0, 0>>
Thrown(k) == 1 + (k % 3)                       \* events_thrown passed with the k-th add

EmptyFile == [exist |-> {}, idx |-> <<>>, rows |-> [t \in TableSet |-> <<>>],
              ctr |-> [t \in TableSet |-> 0], ev |-> 0, thrown |-> 0]

(* ------------------------------- writer ---------------------------------- *)
BadTrig(p)  == p.form \in {"badtype", "noglobal", "none"}
Extra(p)    == p.form \in {"dictx", "dictl", "dictshort"}
EvaluatesTrig(cc) == "triggers" \in cc.write \/ (cc.write \cap cc.trigOnly) # {}

(* _write_indices at the writer's current event row *)
WIdx(G, t, s, n) ==
    IF t \notin G.exist THEN G
    ELSE LET grown == IF Len(G.idx) <= G.ev THEN Append(G.idx, ZeroRow) ELSE G.idx
         IN [G EXCEPT !.idx = [grown EXCEPT ![G.ev + 1][t] = <<s, n>>]]

(* _preset_all_indices: (counter, 0) for every table that exists *)
RECURSIVE PresetSet(_, _)
PresetSet(G, S) == IF S = {} THEN G
                   ELSE LET t == CHOOSE x \in S : TRUE IN PresetSet(WIdx(G, t, G.ctr[t], 0), S \ {t})
Preset(G) == PresetSet(G, G.exist)

(* dataset created if needed and resized to the counter; new rows are blank *)
Grow(G, t) == LET need == G.ctr[t] - Len(G.rows[t]) IN
              [G EXCEPT !.exist = @ \cup {t},
                        !.rows[t] = IF need > 0 THEN @ \o [j \in 1..need |-> Blank] ELSE @]
Bump(G, t, n) == [G EXCEPT !.ctr[t] = @ + n]
Fill(G, t, s, n, k) == [G EXCEPT !.rows[t] = [j \in 1..Len(@) |-> IF j > s /\ j <= s + n THEN <<k, j - s>> ELSE @[j]]]

OK(G)   == [G |-> G, err |-> FALSE]
ERR(G)  == [G |-> G, err |-> TRUE]

(* gate of one data kind inside add(): `write[kind] and (not trig_only[kind] or _check_trigger(triggered))` *)
GateRaises(cc, kind, p) == kind \in cc.write /\ kind \in cc.trigOnly /\ BadTrig(p)
GateOpen(cc, kind, p)   == kind \in cc.write /\ (kind \notin cc.trigOnly \/ p.trig)

StParticles(cc, k, p, G) ==
    IF GateRaises(cc, "particles", p) THEN ERR(G)
    ELSE IF ~GateOpen(cc, "particles", p) THEN OK(G)
    ELSE LET s  == G.ctr["particles_meta"]
             G1 == WIdx(Grow(Bump(G, "particles_meta", p.np), "particles_meta"), "particles_meta", s, p.np)
         IN IF p.pbad THEN ERR(G1)
            ELSE OK([Fill(G1, "particles_meta", s, p.np, k) EXCEPT !.thrown = @ + Thrown(k)])

StTriggers(cc, hasDet, k, p, G) ==
    IF GateRaises(cc, "triggers", p) THEN ERR(G)
    ELSE IF ~GateOpen(cc, "triggers", p) THEN OK(G)
    ELSE IF GateRaises(cc, "antenna_triggers", p) THEN ERR(G)
    ELSE LET include == GateOpen(cc, "antenna_triggers", p)
             G1 == Bump(G, "triggers", 1)                           \* counter first ...
         IN IF BadTrig(p) THEN ERR(G1)                              \* ... then _check_trigger
            ELSE LET s  == G1.ctr["triggers"] - 1
                     G2 == WIdx(Fill(Grow(G1, "triggers"), "triggers", s, 1, k), "triggers", s, 1)
                 IN IF ~(include \/ Extra(p)) THEN OK(G2)
                    ELSE IF ~hasDet THEN ERR(G2)
                    ELSE LET m  == G2.ctr["mc_triggers"]
                             G3 == Grow(Bump(G2, "mc_triggers", p.nw), "mc_triggers")
                         IN IF p.form = "dictshort" THEN ERR(G3)
                            ELSE OK(WIdx(Fill(G3, "mc_triggers", m, p.nw, k), "mc_triggers", m, p.nw))

StRays(cc, hasDet, k, p, G) ==
    IF GateRaises(cc, "rays", p) THEN ERR(G)
    ELSE IF ~GateOpen(cc, "rays", p) THEN OK(G)
    ELSE IF ~hasDet \/ p.rays = "badshape" THEN ERR(G)
    ELSE LET s == G.ctr["rays_meta"]
         IN OK(WIdx(Fill(Grow(Bump(G, "rays_meta", p.nr), "rays_meta"), "rays_meta", s, p.nr, k), "rays_meta", s, p.nr))

StNoise(cc, hasDet, k, p, G) ==
    IF GateRaises(cc, "noise", p) THEN ERR(G)
    ELSE IF ~GateOpen(cc, "noise", p) THEN OK(G)
    ELSE IF ~hasDet THEN ERR(G)
    ELSE LET G1 == Grow(Bump(G, "noise", 1), "noise")
             s  == G1.ctr["noise"] - 1
         IN OK(Fill(WIdx(G1, "noise", s, 1), "noise", s, 1, k))

StWaveforms(cc, hasDet, k, p, G) ==
    IF GateRaises(cc, "waveforms", p) THEN ERR(G)
    ELSE IF ~GateOpen(cc, "waveforms", p) THEN OK(G)
    ELSE IF ~hasDet THEN ERR(G)
    ELSE LET s == G.ctr["waveforms"]
         IN OK(WIdx(Fill(Grow(Bump(G, "waveforms", p.nw), "waveforms"), "waveforms", s, p.nw, k), "waveforms", s, p.nw))

PreCheckRaises(cc, p) == \/ ("rays" \in cc.write /\ p.rays = "none")
                         \/ (cc.trigOnly # {} /\ p.form = "none")

(* the whole add(): result [G, err] *)
RunAdd(cc, hasDet, k, p, G) ==
    IF PreCheckRaises(cc, p) THEN ERR(G)
    ELSE LET r1 == StParticles(cc, k, p, Preset(G))
             r2 == IF r1.err THEN r1 ELSE StTriggers(cc, hasDet, k, p, r1.G)
             r3 == IF r2.err THEN r2 ELSE StRays(cc, hasDet, k, p, r2.G)
             r4 == IF r3.err THEN r3 ELSE StWaveforms(cc, hasDet, k, p, r3.G)    \* waveforms before noise bases (since the repair of D41)
             r5 == IF r4.err THEN r4 ELSE StNoise(cc, hasDet, k, p, r4.G)
         IN IF r5.err
            THEN (IF AsIsNoRollback THEN r5
                  ELSE ERR([r5.G EXCEPT !.idx = SubSeq(@, 1, Min(Len(@), r5.G.ev))]))    \* index row removed
            ELSE LET G5 == r5.G
                     G6 == IF ~AsIsNoEmptyRow /\ Len(G5.idx) <= G5.ev
                           THEN [G5 EXCEPT !.idx = Append(@, ZeroRow)] ELSE G5      \* the event's index row always exists
                 IN OK([G6 EXCEPT !.ev = @ + 1])

(* what the k-th add records for its event, per table *)
NRows(cc, p, t) ==
    CASE t = "particles_meta" -> IF GateOpen(cc, "particles", p) THEN p.np ELSE 0
      [] t = "triggers"       -> IF GateOpen(cc, "triggers", p) THEN 1 ELSE 0
      [] t = "mc_triggers"    -> IF GateOpen(cc, "triggers", p) /\ (GateOpen(cc, "antenna_triggers", p) \/ Extra(p))
                                 THEN p.nw ELSE 0
      [] t = "rays_meta"      -> IF GateOpen(cc, "rays", p) THEN p.nr ELSE 0
      [] t = "noise"          -> IF GateOpen(cc, "noise", p) THEN 1 ELSE 0
      [] t = "waveforms"      -> IF GateOpen(cc, "waveforms", p) THEN p.nw ELSE 0
Recorded(cc, k, p) == [t \in TableSet |-> [j \in 1..NRows(cc, p, t) |-> <<k, j>>]]

(* ------------------------------- reader ---------------------------------- *)
Cut(s, a, b) == [i \in 1..Max(0, Min(b, Len(s)) - a) |-> s[a + i]]          \* python s[a:b], 0 <= a
NEv(G) == Len(G.idx)
EvRows(G, e, t) == Cut(G.rows[t], G.idx[e + 1][t][1], G.idx[e + 1][t][1] + G.idx[e + 1][t][2])   \* e 0-based

Strided(s, e, st) == [i \in 1..((Max(0, e - s) + st - 1) \div st) |-> s + (i - 1) * st]
SetMin(S) == CHOOSE x \in S : \A y \in S : x <= y
SetMax(S) == CHOOSE x \in S : \A y \in S : x >= y

RECURSIVE LenSum(_, _, _, _)
LenSum(G, t, evs, j) == IF j = 0 THEN 0 ELSE G.idx[evs[j] + 1][t][2] + LenSum(G, t, evs, j - 1)

(* EventIterator._load_data for events s, s+st, ... < e : the list of per-event row blocks *)
Chunk(G, t, s, e, st) ==
    LET evs == Strided(s, e, st) IN
    IF ~AsIsSplit THEN [i \in 1..Len(evs) |-> EvRows(G, evs[i], t)]
    ELSE LET starts == {G.idx[evs[i] + 1][t][1] : i \in 1..Len(evs)}
             lastI  == SetMax({i \in 1..Len(evs) : G.idx[evs[i] + 1][t][1] = SetMax(starts)})
             lo     == SetMin(starts)
             hi     == G.idx[evs[lastI] + 1][t][1] + G.idx[evs[lastI] + 1][t][2]
             tmp    == Cut(G.rows[t], lo, hi)
             offs   == [i \in 1..Len(evs) |-> LenSum(G, t, evs, i - 1)]     \* as-is: consecutive pieces
         IN [i \in 1..Len(evs) |-> Cut(tmp, offs[i], offs[i] + G.idx[evs[i] + 1][t][2])]

RaisesMark == << << <<-1, -1>> >> >>        \* stands for an exception (comparable with sequences of row blocks)

(* EventIterator.__next__ ... : the sequence of row blocks delivered; RaisesMark marks an exception *)
RECURSIVE It(_, _, _, _, _, _, _, _, _)
It(G, t, cnt, ss, se, data, stop, step, sr) ==
    LET c1 == cnt + 1  evn == c1 * step + ss IN
    IF evn >= stop THEN <<>>
    ELSE IF evn >= se
         THEN LET ne == Min(evn + sr, NEv(G)) IN
              IF ne <= evn THEN RaisesMark               \* empty chunk: np.min of an empty array
              ELSE LET d == Chunk(G, t, evn, ne, step) IN <<d[1]>> \o It(G, t, 0, evn, ne, d, stop, step, sr)
         ELSE <<data[c1 + 1]>> \o It(G, t, c1, ss, se, data, stop, step, sr)

(* EventIterator.__init__ bounds handling; start/stop may be negative *)
IterFrom(G, t, start, stop, step, sr) ==
    LET n  == NEv(G)
        s1 == IF start < 0 THEN start + n ELSE start
        e1 == IF stop < 0 THEN stop + n ELSE stop
    IN IF s1 < 0 \/ s1 >= n \/ e1 <= 0 \/ e1 > n THEN RaisesMark
       ELSE It(G, t, -1, s1, s1, <<>>, e1, step, sr)

None == -1000                                               \* stands for python None in slice bounds
GetItem(G, t, i)  == IterFrom(G, t, i, IF i = -1 THEN NEv(G) ELSE i + 1, 1, 1)
GetSlice(G, t, a, b, step, srFile) ==
    LET n  == NEv(G)
        a0 == IF a = None THEN 0 ELSE a
        b0 == IF b = None THEN n ELSE b
        a1 == IF ~AsIsNegSlice /\ a0 < 0 THEN a0 + n ELSE a0
        b1 == IF ~AsIsNegSlice /\ b0 < 0 THEN b0 + n ELSE b0
    IN IterFrom(G, t, a0, b0, step, Min(srFile, b1 - a1))
Truth(G, t, evs) == [i \in 1..Len(evs) |-> EvRows(G, evs[i], t)]

(* ------------------------------- actions --------------------------------- *)
Init == /\ c \in Families
        /\ F = EmptyFile
        /\ w = [open |-> TRUE, hasDet |-> TRUE, n |-> 1]
        /\ acc = <<>> /\ nadd = 0 /\ nfail = 0
        /\ last = [op |-> "Init"]

Legal(p) == /\ BadTrig(p) => EvaluatesTrig(c)           \* only inputs the code is certain to look at
            /\ p.form = "dictshort" => p.nw >= 1

Add(p) ==
    /\ w.open /\ nadd < MaxAdds /\ Legal(p)
    /\ LET r == RunAdd(c, w.hasDet, nadd + 1, p, F) IN
       /\ ~r.err
       /\ F' = r.G
       /\ acc' = Append(acc, [k |-> nadd + 1, p |-> p])
       /\ nadd' = nadd + 1
       /\ last' = [op |-> "Add", k |-> nadd + 1, p |-> p, res |-> "ok"]
    /\ UNCHANGED <<c, w, nfail>>

AddFail(p) ==
    /\ w.open /\ nadd < MaxAdds /\ nfail < MaxFails /\ Legal(p)
    /\ LET r == RunAdd(c, w.hasDet, nadd + 1, p, F) IN
       /\ r.err
       /\ F' = r.G
       /\ nadd' = nadd + 1 /\ nfail' = nfail + 1
       /\ last' = [op |-> "Add", k |-> nadd + 1, p |-> p, res |-> "raises"]
    /\ UNCHANGED <<c, w, acc>>

Close == /\ w.open
         /\ w' = [w EXCEPT !.open = FALSE]
         /\ last' = [op |-> "Close"]
         /\ UNCHANGED <<c, F, acc, nadd, nfail>>

(* append session: counters recovered from the dataset shapes *)
Reopen(det) ==
    /\ ~w.open /\ w.n < MaxSessions
    /\ NEv(F) > 0 \/ F.exist # {}
    /\ w' = [open |-> TRUE, hasDet |-> det, n |-> w.n + 1]
    /\ F' = [F EXCEPT !.ctr = [t \in TableSet |-> Len(F.rows[t])], !.ev = Len(F.idx)]
    /\ last' = [op |-> "Reopen", det |-> det]
    /\ UNCHANGED <<c, acc, nadd, nfail>>

Next == \/ \E p \in AddParams : Add(p)
        \/ \E p \in AddParams : AddFail(p)
        \/ Close
        \/ \E det \in BOOLEAN : Reopen(det)
Spec == Init /\ [][Next]_vars

(* ------------------------------ properties ------------------------------- *)
(* C11 *)
LenIsAccepted == NEv(F) = Len(acc)
IndexInRange  == \A e \in 1..NEv(F), t \in TableSet :
                    F.idx[e][t][2] > 0 => F.idx[e][t][1] + F.idx[e][t][2] <= Len(F.rows[t])
RoundTrip     == \A e \in 1..Min(NEv(F), Len(acc)), t \in TableSet :
                    EvRows(F, e - 1, t) = Recorded(c, acc[e].k, acc[e].p)[t]
RejectedAddIsInvisible ==
    [][last'.op = "Add" /\ last'.res = "raises" =>
         /\ acc' = acc /\ NEv(F') = NEv(F)
         /\ \A e \in 1..NEv(F), t \in TableSet : EvRows(F', e - 1, t) = EvRows(F, e - 1, t)]_vars

(* C12: every access path returns, event for event, what one sequential pass returns *)
SeqPass(t) == Truth(F, t, Strided(0, NEv(F), 1))
IterAgree  == \A t \in TableSet, sr \in 1..NEv(F) + 1 :
                 NEv(F) > 0 => IterFrom(F, t, 0, NEv(F), 1, sr) = SeqPass(t)
IndexAgree == \A t \in TableSet, i \in (0 - NEv(F))..(NEv(F) - 1) :
                 GetItem(F, t, i) = <<SeqPass(t)[((i + NEv(F)) % NEv(F)) + 1]>>
Bounds(n)  == {None} \cup ((0 - n)..n)
SliceAgree == \A t \in TableSet, srFile \in 1..NEv(F) + 1, a \in Bounds(NEv(F)), b \in Bounds(NEv(F)), st \in 1..NEv(F) :
                 LET n  == NEv(F)
                     a1 == IF a = None THEN 0 ELSE IF a < 0 THEN a + n ELSE a
                     b1 == IF b = None THEN n ELSE IF b < 0 THEN b + n ELSE b
                 IN (0 <= a1 /\ a1 < b1 /\ b1 <= n) =>
                       GetSlice(F, t, a, b, st, srFile) = Truth(F, t, Strided(a1, b1, st))
(* append sessions are transparent: RoundTrip and LenIsAccepted are stated over all sessions *)
=============================================================================
