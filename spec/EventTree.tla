------------------------------ MODULE EventTree ------------------------------
(* C14 (discrete core) -- pyrex.particle.Event trees and the shower-fraction decision of
   GQRSInteraction / CTWInteraction.choose_shower_fractions.

   Tree: `all` lists the particles in insertion order (particle = its position), `kids[i]`
   the positions of the children of particle i, the first `nroots` particles are roots.
   Fractions: energies in tenths of the neutrino energy; y = inelasticity; a charged-current
   muon / tau neutrino with secondaries draws candidate secondary showers (em, had) until one
   conserves energy (em + had <= lepton energy = 10 - y) and then keeps the larger of primary
   and secondary showers.  Distributions and cross sections are numerical: not modelled.      *)
EXTENDS Integers, Sequences, FiniteSets, TLC

CONSTANTS MaxParticles, Cands      \* Cands: set of candidate sequences <<<<em, had>>, ...>> for the retry loop

VARIABLES all, kids, nroots, last
vars == <<all, kids, nroots, last>>

Init == all = <<>> /\ kids = <<>> /\ nroots = 0 /\ last = [op |-> "Init"]

NewEvent(k) == /\ all' = [i \in 1..k |-> i] /\ kids' = [i \in 1..k |-> <<>>] /\ nroots' = k
               /\ last' = [op |-> "NewEvent", k |-> k]

AddChildren(p, n, single) ==
    /\ all # <<>> /\ p \in 1..Len(all) /\ Len(all) + n <= MaxParticles
    /\ single => n = 1
    /\ all' = all \o [i \in 1..n |-> Len(all) + i]
    /\ kids' = [kids EXCEPT ![p] = @ \o [i \in 1..n |-> Len(all) + i]] \o [i \in 1..n |-> <<>>]
    /\ last' = [op |-> "AddChildren", p |-> p, n |-> n, single |-> single]
    /\ UNCHANGED nroots

AddToForeign == /\ all # <<>>
                /\ last' = [op |-> "AddToForeign", res |-> "raises"]
                /\ UNCHANGED <<all, kids, nroots>>

(* ---- shower fractions (all in tenths) ---- *)
Primary(kind, flav, y) == IF kind = "nc" THEN <<0, y>>
                          ELSE IF flav = "e" THEN <<10 - y, y>> ELSE <<0, y>>
RECURSIVE Retry(_, _, _, _)
Retry(cands, y, prim, n) ==        \* -> <<em, had, tries>>
    IF cands = <<>> THEN <<-1, -1, n>>                       \* script exhausted (not generated: guard below)
    ELSE LET c == Head(cands) IN
         IF c[1] + c[2] <= 10 - y
         THEN (IF c[1] + c[2] > prim[1] + prim[2] THEN <<c[1], c[2], n + 1>> ELSE <<prim[1], prim[2], n + 1>>)
         ELSE Retry(Tail(cands), y, prim, n + 1)
Fractions(kind, flav, y, sec, cands) ==
    LET prim == Primary(kind, flav, y) IN
    IF ~sec \/ kind = "nc" THEN <<prim[1], prim[2], 0>>
    ELSE IF flav = "e" THEN Retry(<<<<0, 0>>>>, y, prim, 0)
    ELSE Retry(cands, y, prim, 0)
Clean(cands, y) == \A i \in 1..Len(cands) : cands[i][1] + cands[i][2] # 10 - y /\ cands[i][1] + cands[i][2] # y   \* no float ties

Shower(kind, flav, y, sec, cands, model) ==
    /\ all = <<>> /\ last.op = "Init"     \* independent of the tree: explored from the initial state only
    /\ Clean(cands, y)
    /\ Fractions(kind, flav, y, sec, cands)[1] >= 0
    /\ last' = [op |-> "Shower", kind |-> kind, flav |-> flav, y |-> y, sec |-> sec, cands |-> cands, model |-> model,
                res |-> Fractions(kind, flav, y, sec, cands)]
    /\ UNCHANGED <<all, kids, nroots>>

(* cross sections: relations on the decade lattice 10^3 .. 10^12 GeV (the values themselves are numerical) *)
Sigma(model, flav, anti) ==
    /\ all = <<>> /\ last.op = "Init"
    /\ last' = [op |-> "Sigma", model |-> model, flav |-> flav, anti |-> anti, decades |-> <<3, 12>>,
                additive |-> (model = "CTW"),           \* cc + nc = total is claimed for the default model
                relations |-> {"positive", "increasing", "length_is_inverse"}]
    /\ UNCHANGED <<all, kids, nroots>>

Next == \/ \E k \in 1..2 : NewEvent(k)
        \/ \E model \in {"GQRS", "CTW"}, flav \in {"e", "mu", "tau"}, anti \in BOOLEAN : Sigma(model, flav, anti)
        \/ \E p \in 1..MaxParticles, n \in 1..2, s \in BOOLEAN : AddChildren(p, n, s)
        \/ AddToForeign
        \/ \E kind \in {"cc", "nc"}, flav \in {"e", "mu", "tau"}, y \in {0, 2, 5, 9, 10}, sec \in BOOLEAN, cands \in Cands,
              model \in {"GQRS", "CTW"} : Shower(kind, flav, y, sec, cands, model)
Spec == Init /\ [][Next]_vars

(* ------------------------------ properties ------------------------------ *)
Range(s) == {s[i] : i \in 1..Len(s)}
IterOnce == \A i, j \in 1..Len(all) : i # j => all[i] # all[j]
Parents(c) == {p \in 1..Len(all) : c \in Range(kids[p])}
OneParent == \A c \in 1..Len(all) : IF c <= nroots THEN Parents(c) = {} ELSE Cardinality(Parents(c)) = 1
RECURSIVE Level(_)
Level(c) == IF c <= nroots THEN 0 ELSE 1 + Level(CHOOSE p \in Parents(c) : TRUE)
RECURSIVE LevelSet(_)
LevelSeq(S) == S
LevelSet(l) == {c \in 1..Len(all) : Level(c) = l}
LevelsPartition == OneParent => (UNION {LevelSet(l) : l \in 0..Len(all)}) = 1..Len(all)
ChildrenComeLater == \A p \in 1..Len(all) : \A c \in Range(kids[p]) : c > p
SumAtMostOne == last.op = "Shower" => last.res[1] >= 0 /\ last.res[2] >= 0 /\ last.res[1] + last.res[2] <= 10
CCeSumsToOne == last.op = "Shower" /\ last.kind = "cc" /\ last.flav = "e" => last.res[1] + last.res[2] = 10
NCAllHadronic == last.op = "Shower" /\ last.kind = "nc" => last.res[1] = 0 /\ last.res[2] = last.y
=============================================================================
