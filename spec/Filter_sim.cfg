SPECIFICATION Spec
CONSTANTS
  Ns = {3, 4, 5, 6, 7}
  SigVals <- SigValsAll
  Kernels <- KernelsSafe
  Bs <- BsAll
  Variants <- VariantsAll
  K = 2
  MaxFilters = 3
INVARIANT Linear
INVARIANT NoWrap
INVARIANT Unit
INVARIANT Passive
INVARIANT PureDelayShifts
CHECK_DEADLOCK FALSE
