---- MODULE AskaryanRelMC ----
EXTENDS AskaryanRel
CONSTANT MaxLevel
FracsAll == {<<1, 0>>, <<3, 2>>, <<0, 1>>}
MovesAll == {3, -5, 1, 70, -60}
BothAll == {3, -5, 1000000}
Angles == {0, 2, -4, 20, -40, 80, 100, 101, 102}
LevelBound == TLCGet("level") <= MaxLevel
====
