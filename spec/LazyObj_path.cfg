SPECIFICATION Spec
CONSTANTS
  Attrs <- PathAttrs
  Props = {"tof", "geometry"}
  Vals <- ValsAll
  Static <- PathAttrs
  IdentitySkip = FALSE
CONSTRAINT LevelBound
INVARIANT NoStale
INVARIANT ReadIsFresh
CHECK_DEADLOCK FALSE
