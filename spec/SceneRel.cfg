SPECIFICATION Spec
CONSTANTS
  NAnt = 3
  Shifts <- ShiftsMC
  Scenes = {1, 2, 3, 4}
  MaxLevel = 6
CONSTRAINT LevelBound
INVARIANT Consistent
CHECK_DEADLOCK FALSE
