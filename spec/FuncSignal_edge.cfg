SPECIFICATION Spec
CONSTANTS
  MaxObjs = 4
  Grids <- GridsEdge
  Fns <- FnsSmall
  Scales <- NoInts
  Divs <- NoInts
  Shifts <- NoInts
  Delays <- DelaysSim
  Gains <- GainsAll
  Buffers <- NoInts
  Resamples <- NoInts
  AsIsSetBuffers = FALSE
INVARIANT NoStale
INVARIANT ReadIsEager
PROPERTY Independent
CHECK_DEADLOCK FALSE
