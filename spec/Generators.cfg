SPECIFICATION Spec
CONSTANTS
  MaxCalls = 5
  ListLens = {1, 3}
  ThrowSeqs <- ThrowsAll
  Ratios <- RatiosAll
  Percents <- PercentsAll
INVARIANT ListStopsOnlyPastEnd
INVARIANT ListCycles
PROPERTY CountPerThrow
PROPERTY ListCountIsIndexPlusOffset
CHECK_DEADLOCK FALSE
