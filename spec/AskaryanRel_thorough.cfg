SPECIFICATION Spec
CONSTANTS
  Models = {"ZHS", "AVZ", "ARZ"}
  Lengths = {128, 129}
  Steps = {1, 2}
  Fractions <- FracsAll
  Factors = {2, 5}
  Moves <- MovesAll
  OffCone <- Angles
  MaxLevel = 6
CONSTRAINT LevelBound
INVARIANT Consistent
CHECK_DEADLOCK FALSE
