---- MODULE EarthRelMC ----
EXTENDS EarthRel
CONSTANT MaxLevel
PremRadii == <<1221500, 3480000, 5701000, 5771000, 5971000, 6151000, 6346600, 6356000, 6368000, 6371000>>
CmcRadii == <<3464102, 6338140, 6378140>>       \* first boundary is sqrt(1.2e13) = 3464101.6...: integer radii below / from 3464102
Around(R) == UNION {{<<R[i] - 1, R[i], R[i] + 1>>} : i \in 1..Len(R)}
PremProbes == Around(PremRadii) \cup {<<0, 1, 600000>>, <<6371000, 6371001, 12000000>>, <<6370999, 1221499, 6346599>>, <<3000000>>, <<5701000, 5700999>>}
CmcProbes == Around(CmcRadii) \cup {<<0, 1, 600000>>, <<6378140, 6378141, 12000000>>, <<6378139, 3464101>>, <<3000000>>}
LevelBound == TLCGet("level") <= MaxLevel
====
