------------------------------- MODULE EarthRel -------------------------------
(* C15 (discrete and relational core) -- Earth model: shell dispatch of the density and exact relations of the
   slant depth.

   Part A.  Radii are integers (metres).  Shell(r) is the index of the half-open shell [lower, upper) containing r,
   0 outside the Earth.  Probe(rs, form) asks the real density() for a tuple of radii in one of several input
   forms; the driver compares each value with the published density law of the predicted shell (0 outside) and
   the output shape with the input shape.  ShellsPartition: the shells tile [0, R) without gap or overlap.

   Part B.  The slant-depth configuration is [ep (endpoint index), zen (index on a lattice of zenith angles of the
   chord direction, larger = dipping deeper), turns (quarter turns about the vertical applied to endpoint and
   direction together), k (length of the direction vector)].  ScaleDir, Turn and ToAxis (the whole configuration rotated about the Earth's centre) leave the slant depth unchanged,
   Dip must not decrease it; `dips` counts the dips since the base, so the relation to the base value is
   "equal" while dips = 0 and "at least" afterwards.  Above (endpoints above the surface with a chord that does
   not point below the horizon) must give exactly zero.                                                        *)
EXTENDS Integers, Sequences, FiniteSets, TLC

CONSTANTS Radii,          \* upper radii of the shells (metres, increasing); the last is the Earth radius
          ProbeSets,      \* set of tuples of radii
          Forms,          \* input forms
          Endpoints, Zeniths, HorizonIndex, AboveEndpoints, Factors, Model

VARIABLES ep, zen, zen0, turns, k, dips, axis, last
vars == <<ep, zen, zen0, turns, k, dips, axis, last>>

NSh == Len(Radii)
Lower(i) == IF i = 1 THEN 0 ELSE Radii[i - 1]
Shell(r) == IF r < 0 \/ r >= Radii[NSh] THEN 0
            ELSE CHOOSE i \in 1..NSh : Lower(i) <= r /\ r < Radii[i]

Init == /\ ep \in Endpoints /\ zen \in Zeniths /\ zen0 = zen /\ turns = 0 /\ k = 1 /\ dips = 0 /\ axis = FALSE
        /\ last = [op |-> "Init", zero |-> (ep \in AboveEndpoints /\ zen <= HorizonIndex)]

Probe(rs, form) == /\ last' = [op |-> "Probe", rs |-> rs, form |-> form, shells |-> [i \in 1..Len(rs) |-> Shell(rs[i])]]
                   /\ UNCHANGED <<ep, zen, zen0, turns, k, dips, axis>>
Rec(op, z) == [op |-> op, zero |-> (ep \in AboveEndpoints /\ z <= HorizonIndex), rel |-> IF op = "Dip" THEN "ge" ELSE "eq"]
ScaleDir(f) == /\ k * f <= 1000
               /\ k' = k * f /\ last' = Rec("ScaleDir", zen)
               /\ UNCHANGED <<ep, zen, zen0, turns, dips, axis>>
Turn == /\ turns' = (turns + 1) % 4 /\ last' = Rec("Turn", zen)
        /\ UNCHANGED <<ep, zen, zen0, k, dips, axis>>
Dip == /\ zen + 1 \in Zeniths
       /\ zen' = zen + 1 /\ dips' = dips + 1 /\ last' = Rec("Dip", zen + 1)
       /\ UNCHANGED <<ep, zen0, turns, k, axis>>
(* the same chord seen after rotating the Earth about its centre so that the endpoint lies on the vertical axis *)
ToAxis == /\ axis' = ~axis /\ last' = Rec("ToAxis", zen)
          /\ UNCHANGED <<ep, zen, zen0, turns, k, dips>>

Next == \/ \E rs \in ProbeSets, f \in Forms : Probe(rs, f)
        \/ \E f \in Factors : ScaleDir(f)
        \/ Turn
        \/ Dip
        \/ ToAxis
Spec == Init /\ [][Next]_vars

ShellsPartition == \A r \in {Radii[i] - 1 : i \in 1..NSh} \cup {Radii[i] : i \in 1..NSh} \cup {0} :
                      /\ (r < Radii[NSh] => Cardinality({i \in 1..NSh : Lower(i) <= r /\ r < Radii[i]}) = 1)
                      /\ (r >= Radii[NSh] => Shell(r) = 0)
ProbeShells == last.op = "Probe" => \A i \in 1..Len(last.rs) :
                   LET s == last.shells[i]  r == last.rs[i] IN
                   IF s = 0 THEN r < 0 \/ r >= Radii[NSh] ELSE Lower(s) <= r /\ r < Radii[s]
Consistent == dips = zen - zen0
=============================================================================
