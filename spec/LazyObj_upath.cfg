SPECIFICATION Spec
CONSTANTS
  Attrs <- UPathAttrs
  Props = {"tof", "geometry"}
  Vals <- ValsAll
  Static <- UPathAttrs
  IdentitySkip = FALSE
CONSTRAINT LevelBound
INVARIANT NoStale
INVARIANT ReadIsFresh
CHECK_DEADLOCK FALSE
