SPECIFICATION Spec
CONSTANTS
  Attrs <- TracerAttrs
  Props = {"solutions", "scalars"}
  Vals <- ValsAll
  Static <- TracerAttrs
  IdentitySkip = FALSE
CONSTRAINT LevelBound
INVARIANT NoStale
INVARIANT ReadIsFresh
CHECK_DEADLOCK FALSE
