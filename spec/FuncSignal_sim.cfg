SPECIFICATION Spec
CONSTANTS
  MaxObjs = 4
  Grids <- GridsSim
  Fns <- FnsSim
  Scales <- ScalesAll
  Divs = {2}
  Shifts <- ShiftsAll
  Delays <- DelaysSim
  Gains <- GainsAll
  Buffers <- BuffersSim
  Resamples = {2, 3, 4, 5, 7}
  AsIsSetBuffers = FALSE
INVARIANT NoStale
INVARIANT ReadIsEager
PROPERTY Independent
CHECK_DEADLOCK FALSE
