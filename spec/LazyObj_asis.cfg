SPECIFICATION Spec
CONSTANTS
  Attrs <- TracerAttrs
  Props = {"solutions", "scalars"}
  Vals <- ValsAll
  Static <- TracerAttrs
  IdentitySkip = TRUE
CONSTRAINT LevelBound
INVARIANT NoStale
INVARIANT ReadIsFresh
CHECK_DEADLOCK FALSE
