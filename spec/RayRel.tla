-------------------------------- MODULE RayRel --------------------------------
(* C01 (relational core) -- extends the endpoint group of RaySymmetry.tla (Swap, Shift, Turn) with the scaling law of
   exponential-profile ice: in ice n(z) = n0 - k exp(a z), scaling both endpoints by 2^e and the profile constant a by
   2^-e scales every ray: path length and time of flight times 2^e, launch and arrival directions unchanged, the
   same number of solutions.  `ups` / `downs` count the scalings; Consistent: e = ups - downs (and RaySymmetry's).
   At every state the driver also checks the clauses that relate the reported quantities of one solution to each other
   and to the ice: n sin(theta) equal at launch and reception, the first solution never turns over and the second
   does, direction vectors unit and in the vertical plane of the endpoints, straight-line and index bounds on path
   length and time of flight, agreement of the analytic and the numerical tracer.                                *)
EXTENDS RaySymmetry

CONSTANT Stretches
VARIABLES e, ups, downs
rvars == <<vars, e, ups, downs>>

RInit == Init /\ e = 0 /\ ups = 0 /\ downs = 0
Keep == UNCHANGED <<e, ups, downs>>
ScaleUp == /\ e < 2
           /\ e' = e + 1 /\ ups' = ups + 1 /\ last' = [op |-> "ScaleUp"]
           /\ UNCHANGED <<base, src, dst, swapped, turns, shift, downs>>
ScaleDown == /\ e > -2
             /\ e' = e - 1 /\ downs' = downs + 1 /\ last' = [op |-> "ScaleDown"]
             /\ UNCHANGED <<base, src, dst, swapped, turns, shift, ups>>
(* the receiver moved horizontally by the lattice vector v: a new base configuration.  Between neighbouring configurations
   Hamilton's relation holds for true rays: d(tof)/d(rho) = n sin(theta) / c -- the driver checks it with the mean of the
   ray parameters before and after (this is "the launched ray arrives at the receiver" in differential form)        *)
Stretch(v) == /\ ~swapped /\ turns = 0 /\ shift = <<0, 0>>
              /\ base' = [src |-> base.src, dst |-> Add(base.dst, v)]
              /\ dst' = Add(dst, v)
              /\ last' = [op |-> "Stretch", v |-> v]
              /\ UNCHANGED <<src, swapped, turns, shift>> /\ Keep
RNext == \/ (\E v \in Stretches : Stretch(v))
         \/ (Swap /\ Keep) \/ (Turn /\ Keep) \/ (\E v \in Shifts : Shift(v) /\ Keep)
         \/ ScaleUp \/ ScaleDown
RSpec == RInit /\ [][RNext]_rvars
RConsistent == Consistent /\ StratifiedInvariants /\ e = ups - downs
=============================================================================
