SPECIFICATION Spec
CONSTANTS
  Dirs <- DirsAll
  Pols <- PolsAll
  VTypes = {"voltage", "field", "power", "undefined"}
  Classes = {"base", "probe", "dipole", "system"}
INVARIANT GroupSize
INVARIANT Covariant
INVARIANT AxesOrthonormal
INVARIANT FieldDividedExactly
CHECK_DEADLOCK FALSE
