SPECIFICATION Spec
CONSTANTS
  Dirs <- DirsAll
  Pols <- PolsAll
  VTypes = {"voltage", "field", "power", "undefined"}
  Classes = {"base", "probe", "dipole", "system"}
  Rot2 <- Rot2Some
INVARIANT GroupSize
INVARIANT Covariant
INVARIANT AxesOrthonormal
INVARIANT FieldDividedExactly
CHECK_DEADLOCK FALSE
