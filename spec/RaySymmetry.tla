----------------------------- MODULE RaySymmetry -----------------------------
(* C02 -- the group of endpoint transformations under which the solution set of a ray tracer
   in horizontally stratified ice must be invariant (or transform covariantly):
     Swap        exchange source and receiver (reciprocity)
     Shift(v)    translate both points horizontally by the lattice vector v
     Turn        rotate both points a quarter turn about the vertical axis (through the origin)
   The state carries the current endpoints and, separately, the bookkeeping (swapped, turns) that
   says how the current solution set relates to the one of the base configuration:
     lengths, times of flight, attenuations: equal as multisets;
     directions: rotated by `turns` quarter turns, and if swapped, emitted/received exchanged and reversed.
   Consistent states that the bookkeeping really describes the current endpoints; the driver evaluates
   the real tracers at every state and checks the predicted relation against the base solutions.     *)
EXTENDS Integers, Sequences, TLC

CONSTANTS Bases,      \* set of base configurations [src |-> <<x,y,z>>, dst |-> <<x,y,z>>]
          Shifts      \* set of horizontal lattice vectors <<dx, dy>>

VARIABLES base, src, dst, swapped, turns, shift, last
vars == <<base, src, dst, swapped, turns, shift, last>>

Rot(p) == <<0 - p[2], p[1], p[3]>>                       \* quarter turn about z: (x, y) -> (-y, x)
RECURSIVE RotN(_, _)
RotN(p, n) == IF n = 0 THEN p ELSE RotN(Rot(p), n - 1)
Add(p, v) == <<p[1] + v[1], p[2] + v[2], p[3]>>
RotV(v) == <<0 - v[2], v[1]>>

Init == /\ base \in Bases
        /\ src = base.src /\ dst = base.dst
        /\ swapped = FALSE /\ turns = 0 /\ shift = <<0, 0>>
        /\ last = [op |-> "Init"]

Swap == /\ src' = dst /\ dst' = src /\ swapped' = ~swapped
        /\ last' = [op |-> "Swap"]
        /\ UNCHANGED <<base, turns, shift>>

Shift(v) == /\ src' = Add(src, v) /\ dst' = Add(dst, v)
            /\ shift' = <<shift[1] + v[1], shift[2] + v[2]>>
            /\ last' = [op |-> "Shift", v |-> v]
            /\ UNCHANGED <<base, swapped, turns>>

Turn == /\ src' = Rot(src) /\ dst' = Rot(dst)
        /\ turns' = (turns + 1) % 4
        /\ shift' = RotV(shift)
        /\ last' = [op |-> "Turn"]
        /\ UNCHANGED <<base, swapped>>

Next == Swap \/ Turn \/ \E v \in Shifts : Shift(v)
Spec == Init /\ [][Next]_vars

(* the bookkeeping describes the endpoints: current = shift + Rot^turns(base endpoint), exchanged if swapped *)
Consistent == LET s0 == IF swapped THEN base.dst ELSE base.src
                  d0 == IF swapped THEN base.src ELSE base.dst
              IN /\ src = Add(RotN(s0, turns), shift)
                 /\ dst = Add(RotN(d0, turns), shift)
Rho2(p, q) == (p[1] - q[1]) * (p[1] - q[1]) + (p[2] - q[2]) * (p[2] - q[2])
StratifiedInvariants == /\ Rho2(src, dst) = Rho2(base.src, base.dst)
                        /\ {src[3], dst[3]} = {base.src[3], base.dst[3]}
=============================================================================
