SPECIFICATION Spec
CONSTANTS
  Bases <- BasesAll
  Shifts <- ShiftsAll
CONSTRAINT LevelBound
INVARIANT Consistent
INVARIANT StratifiedInvariants
CHECK_DEADLOCK FALSE
