---- MODULE UniformImageMC ----
EXTENDS UniformImage
ZsAll == {0, -10, -20, -30, -40, -50, -60, -90, -120}
====
