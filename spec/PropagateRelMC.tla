---- MODULE PropagateRelMC ----
EXTENDS PropagateRel
CONSTANT MaxLevel
FactorsMC == {2, -1, 3}
MovesMC == {5, -3, 1000}
LevelBound == TLCGet("level") <= MaxLevel
====
