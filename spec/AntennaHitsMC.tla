---- MODULE AntennaHitsMC ----
EXTENDS AntennaHits
S(t0, v) == [t0 |-> t0, v |-> v]
SigsSmall == {S(0, <<16, 32, 16>>), S(2, <<32, 0, 16>>), S(20, <<16, 16>>), S(1, <<16, 48, 16>>)}
SigsSim   == SigsSmall \cup {S(-6, <<8, 8, 8, 8, 8, 8, 8>>), S(4, <<-32, 64>>), S(21, <<0, 16, 0>>), S(0, <<16, 32, 16>>),
                             S(1000000, <<16, 32>>), S(6, <<16, 16, 16, 16>>)}
WinSmall  == {<<0, 4>>, <<3, 3>>, <<18, 3>>}
WinSim    == {<<0, 4>>, <<3, 3>>, <<18, 3>>, <<-4, 3>>, <<1, 6>>, <<999998, 4>>, <<5, 2>>}
LevelBound == TLCGet("level") <= 7
LevelBoundT == TLCGet("level") <= 9
LevelBoundG == TLCGet("level") <= 5
====
