SPECIFICATION Spec
CONSTANTS
  Stacks <- StacksAll
  Depths <- DepthsAll
  MaxLegs = 5
INVARIANT Continuous
INVARIANT StartsAndEnds
INVARIANT LegsInsideLayers
INVARIANT LengthBound
CHECK_DEADLOCK FALSE
