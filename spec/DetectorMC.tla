---- MODULE DetectorMC ----
EXTENDS Detector
LevelBound == TLCGet("level") <= 5
LevelBoundG == TLCGet("level") <= 4
LevelBoundT == TLCGet("level") <= 6
OpsAll == {"NewAnt", "NewList", "NewNested", "NewStr", "NewSta", "Plus", "IPlus", "Sum3", "Hit", "Clear", "Build", "Triggered"}
OpsBuild == {"NewStr", "NewSta", "Plus", "IPlus", "Build"}
OpsLists == {"NewAnt", "NewList", "NewNested", "NewStr", "Plus", "IPlus", "Hit", "Triggered", "Clear"}
OpsDeep == {"NewStr", "Plus", "IPlus", "Build"}
LevelBoundD == TLCGet("level") <= 9
====
