---- MODULE DetectorMC ----
EXTENDS Detector
LevelBound == TLCGet("level") <= 5
LevelBoundG == TLCGet("level") <= 4
LevelBoundT == TLCGet("level") <= 6
====
