SPECIFICATION Spec
CONSTANTS
  Ds = {60, 120}
  Zs <- ZsAll
  Rhos = {0, 30, 40, 50, 60, 80, 90, 120, 160, 240, 320, 400}
  MaxRefl = 3
  MaxL = 700
INVARIANT WalkIsFormula
INVARIANT WalkIsImage
INVARIANT FinalDirection
INVARIANT InsideSlab
INVARIANT PointsOnBoundaries
CHECK_DEADLOCK FALSE
