SPECIFICATION Spec
CONSTANTS
  MaxObjs = 10
  Terminal = {"Build"}
  StrSizes = {1}
  Aboves = {FALSE}
  Ops <- OpsDeep
  AsIsIAdd = FALSE
CONSTRAINT LevelBoundD
INVARIANT EachOnce
INVARIANT PlusIsConcat
INVARIANT SumIsConcat
INVARIANT NoAntennaAboveIce
INVARIANT TriggeredIffAnyHit
INVARIANT ClearAll
CHECK_DEADLOCK FALSE
