SPECIFICATION Spec
CONSTANTS
  MaxObjs = 12
  Terminal = {}
  StrSizes = {1, 2}
  Aboves = {TRUE, FALSE}
  Ops <- OpsBuild
  AsIsIAdd = FALSE

INVARIANT EachOnce
INVARIANT PlusIsConcat
INVARIANT SumIsConcat
INVARIANT NoAntennaAboveIce
INVARIANT TriggeredIffAnyHit
INVARIANT ClearAll
PROPERTY RejectedLeavesUnchanged
CHECK_DEADLOCK FALSE
