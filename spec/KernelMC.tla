---- MODULE KernelMC ----
EXTENDS Kernel
CONSTANTS MaxP, MaxA, NsolVals
WOK     == [surv |-> 10, inter |-> 10, forced |-> -1]
WLow    == [surv |-> 2, inter |-> 10, forced |-> -1]
WNone   == [surv |-> -1, inter |-> -1, forced |-> -1]
WForced == [surv |-> 10, inter |-> 10, forced |-> 1]
WInter  == [surv |-> 10, inter |-> 3, forced |-> -1]
WMid    == [surv |-> 10, inter |-> 4, forced |-> -1]
WMidS   == [surv |-> 4, inter |-> 10, forced |-> -1]
WHalf   == [surv |-> 5, inter |-> 10, forced |-> -1]      \* exactly on the scalar cut 0.5 and on the pair cut (0.5, .)
WZero   == [surv |-> 0, inter |-> 10, forced |-> -1]      \* weight exactly 0: passes when there is no cut
Weights == {WOK, WLow, WNone, WForced, WInter, WMid, WMidS}
Cuts    == {[form |-> "none", m1 |-> 0, m2 |-> 0], [form |-> "scalar", m1 |-> 5, m2 |-> 0], [form |-> "pair", m1 |-> 5, m2 |-> 5],
            [form |-> "pair", m1 |-> 5, m2 |-> 3], [form |-> "pair", m1 |-> 3, m2 |-> 5]}
Sols(P, A, ns) == {<<pp, aa, ss>> \in (1..P) \X (1..A) \X (1..2) : ss <= ns[pp][aa]}
OffOpts(P, A, ns) == SUBSET ({<<1, 1, 1>>, <<P, A, ns[P][A]>>} \cap Sols(P, A, ns))
BadOpts(P, A, ns) == SUBSET ({<<1, A, 1>>, <<P, 1, ns[P][1]>>} \cap Sols(P, A, ns))
CONSTANTS WeightSet
InitMC == \E P \in 1..MaxP, A \in 1..MaxA :
          \E ns \in [1..P -> [1..A -> NsolVals]] :
          \E w \in [1..P -> WeightSet], wm \in Cuts, of \in OffOpts(P, A, ns), bd \in BadOpts(P, A, ns),
             t \in {"none", "func", "dict"}, wrt \in BOOLEAN :
             InitWith([P |-> P, A |-> A, w |-> w, wmin |-> wm, nsol |-> ns, off |-> of, bad |-> bd,
                       trig |-> t, writer |-> wrt, thrown |-> 1 + ((P + A + Cardinality(of)) % 3)])
SpecMC == InitMC /\ [][Next]_vars
WeightsSmall == {WOK, WLow, WMid, WHalf, WZero}
====
