SPECIFICATION Spec
CONSTANTS
  Kind = "system"
  Noisy = FALSE
  Sigs <- SigsSmall
  Windows <- WinSmall
  Thr = 24
  MaxSigs = 4
CONSTRAINT LevelBoundT
INVARIANT CachesOrdered
INVARIANT OnePerSignal
INVARIANT TriggeredAreExactlyThose
INVARIANT FullIsSuperposition
INVARIANT ClearIsInit
PROPERTY StaleOnlyByD9
PROPERTY NoiseMasterUntilReset
CHECK_DEADLOCK FALSE
