---- MODULE FilterMC ----
EXTENDS Filter
T(d, g) == <<d, g>>
KernelsSafe == {<<T(0, 1)>>, <<T(1, 1)>>, <<T(2, 1)>>, <<T(3, 2)>>, <<T(-1, 1)>>, <<T(-2, -1)>>, <<T(0, 2), T(1, -1)>>,
                <<T(1, 1), T(-1, 1)>>, <<T(2, 3), T(0, -2)>>, <<T(0, 0)>>, <<T(1, -1)>>}
KernelsWrap == KernelsSafe \cup {<<T(4, 1)>>, <<T(5, 1)>>, <<T(7, 1)>>}
SigValsAll == {-2, 1, 3}
BsAll == {<<1, 0, -1>>, <<2, 2, 0>>, <<0, 3, -1, 1>>, <<1, 1, 1, 1>>, <<1, -2, 0, 3, 1>>, <<0, 0, 2, 0, 0, -1>>, <<1, 2, 3, 4, 5, 6, 7>>}
VariantsOne == {<<"vec", FALSE>>}
VariantsAll == {<<"vec", FALSE>>, <<"vec", TRUE>>, <<"scalar", FALSE>>, <<"scalar", TRUE>>, <<"posonly", TRUE>>,
                <<"narrow", FALSE>>, <<"narrow", TRUE>>, <<"table", FALSE>>, <<"table", TRUE>>}
====
