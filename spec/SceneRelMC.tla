---- MODULE SceneRelMC ----
EXTENDS SceneRel
CONSTANT MaxLevel
ShiftsMC == {<<300, -200>>, <<-1000, 500>>}
LevelBound == TLCGet("level") <= MaxLevel
====
