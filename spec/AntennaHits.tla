---------------------------- MODULE AntennaHits ----------------------------
(* C09 -- hit bookkeeping of Antenna and AntennaSystem (pyrex/antenna.py,
   pyrex/detector.py): signals, the incrementally filled caches behind
   all_waveforms / waveforms / is_hit, full_waveform over arbitrary windows,
   clear.  Times are integer ticks, every grid has step 2 ticks; a window is
   [t0, n].  Without noise a waveform over a window is the superposition of all
   received signals, linearly interpolated and zero outside their span; for a
   system (Kind = "system") the front end of the driver (gain 2, delay one
   sample) is applied: value(t) = 2 * Super(t - 2).

   The caches are modelled as the code has them: `shown[k]` is the waveform of
   signal k as computed when all_waveforms first reached it, `trigs[k]` the
   trigger decision taken on it.  A reported waveform goes stale when a later
   signal overlaps its window (query - receive - query): that is defect D9 (open
   known finding).  StaleOnlyByD9 states that staleness arises in no other way.
   Noise is not interpreted here: the driver checks that the noise part of every
   observation is one function of (noise generation, absolute time).          *)
EXTENDS Integers, Sequences, FiniteSets, TLC

CONSTANTS Kind,          \* "antenna" | "system"
          Sigs,          \* set of signals [t0 |-> tick, v |-> Seq(Int)] that may be received
          Windows,       \* set of windows [t0, n] for full_waveform / is_hit_during / make_noise
          Thr,           \* trigger threshold: a waveform triggers iff some sample >= Thr
          Noisy,         \* BOOLEAN: antenna adds noise (values then unknown to the spec, counts/grids/consistency only)
          MaxSigs

VARIABLES sigs,      \* received signals, in order
          shown,     \* cache behind all_waveforms: Seq of value sequences (noise-free part)
          trigs,     \* cache behind waveforms: Seq of BOOLEAN
          gen,       \* noise generation: 0 = no noise master, k = k-th master
          ngen,      \* masters created so far
          last
vars == <<sigs, shown, trigs, gen, ngen, last>>

Interp(s, t) == LET n == Len(s.v)  off == t - s.t0 IN
                IF off < 0 \/ off > 2 * (n - 1) THEN 0
                ELSE IF off % 2 = 0 THEN s.v[(off \div 2) + 1]
                ELSE (s.v[(off \div 2) + 1] + s.v[(off \div 2) + 2]) \div 2
RECURSIVE Super(_, _)
Super(ss, t) == IF ss = <<>> THEN 0 ELSE Interp(Head(ss), t) + Super(Tail(ss), t)
Obs(ss, t) == IF Kind = "system" THEN 2 * Super(ss, t - 2) ELSE Super(ss, t)
ObsSt(ss, t, st) == IF Kind = "system" THEN 2 * Super(ss, t - st) ELSE Super(ss, t)     \* front end delays by one sample of the grid
WaveSt(ss, t0, n, st) == [k \in 1..n |-> ObsSt(ss, t0 + st * (k - 1), st)]
Wave(ss, t0, n) == WaveSt(ss, t0, n, 2)
WaveOf(ss, s) == Wave(ss, s.t0, Len(s.v))
Proc(s) == WaveOf(<<s>>, s)                                  \* AntennaSystem.signals[k]
Trig(w) == \E k \in 1..Len(w) : w[k] >= Thr

(* catch-up loops *)
CatchShown == shown \o [k \in 1..(Len(sigs) - Len(shown)) |-> WaveOf(sigs, sigs[Len(shown) + k])]
CatchTrigs(sh) == trigs \o [k \in 1..(Len(sh) - Len(trigs)) |-> Trig(sh[Len(trigs) + k])]
NeedsNoise == Noisy /\ gen = 0

Init == /\ sigs = <<>> /\ shown = <<>> /\ trigs = <<>> /\ gen = 0 /\ ngen = 0
        /\ last = [op |-> "Init"]

Receive(s) == /\ Len(sigs) < MaxSigs
              /\ sigs' = Append(sigs, s)
              /\ last' = [op |-> "Receive", s |-> s]
              /\ UNCHANGED <<shown, trigs, gen, ngen>>

(* receive([good, bad]): the second polarized component is refused (undefined value type): nothing may be stored *)
ReceiveFail(s) == /\ Len(sigs) < MaxSigs
                  /\ last' = [op |-> "ReceiveFail", s |-> s]
                  /\ UNCHANGED <<sigs, shown, trigs, gen, ngen>>

Master(made) == IF made /\ NeedsNoise THEN <<ngen + 1, ngen + 1>> ELSE <<gen, ngen>>

AllWaveforms == LET sh == CatchShown  m == Master(Len(sh) > Len(shown)) IN
                /\ shown' = sh
                /\ gen' = m[1] /\ ngen' = m[2]
                /\ last' = [op |-> "AllWaveforms", res |-> sh, gen |-> m[1]]
                /\ UNCHANGED <<sigs, trigs>>

Waveforms(hit) == LET sh == CatchShown  tr == CatchTrigs(sh)  m == Master(Len(sh) > Len(shown)) IN
                  /\ shown' = sh /\ trigs' = tr
                  /\ gen' = m[1] /\ ngen' = m[2]
                  /\ last' = [op |-> IF hit THEN "IsHit" ELSE "Waveforms",
                              res |-> [k \in 1..Len(tr) |-> tr[k]], waves |-> sh, gen |-> m[1]]
                  /\ UNCHANGED sigs

FullWaveform(w, during) == LET m == Master(TRUE)  v == WaveSt(sigs, w[1], w[2], w[3]) IN
                   /\ gen' = m[1] /\ ngen' = m[2]
                   /\ last' = [op |-> IF during THEN "IsHitDuring" ELSE "FullWaveform", t0 |-> w[1], n |-> w[2], st |-> w[3],
                               res |-> v, trig |-> Trig(v), gen |-> m[1]]
                   /\ UNCHANGED <<sigs, shown, trigs>>

MakeNoise(w) == LET m == Master(TRUE) IN
                /\ Noisy
                /\ gen' = m[1] /\ ngen' = m[2]
                /\ last' = [op |-> "MakeNoise", t0 |-> w[1], n |-> w[2], st |-> w[3], gen |-> m[1]]
                /\ UNCHANGED <<sigs, shown, trigs>>

Clear(reset) == /\ sigs' = <<>> /\ shown' = <<>> /\ trigs' = <<>>
                /\ gen' = IF reset THEN 0 ELSE gen
                /\ UNCHANGED ngen
                /\ last' = [op |-> "Clear", reset |-> reset]

Next == \/ \E s \in Sigs : Receive(s)
        \/ \E s \in Sigs : ReceiveFail(s)
        \/ AllWaveforms
        \/ \E h \in BOOLEAN : Waveforms(h)
        \/ \E w \in Windows, d \in BOOLEAN : FullWaveform(w, d)
        \/ \E w \in Windows : MakeNoise(w)
        \/ \E r \in BOOLEAN : Clear(r)
Spec == Init /\ [][Next]_vars

(* ------------------------------ properties ------------------------------ *)
CachesOrdered == Len(trigs) <= Len(shown) /\ Len(shown) <= Len(sigs)
OnePerSignal  == last.op \in {"AllWaveforms", "Waveforms", "IsHit"} =>
                    /\ Len(shown) = Len(sigs)
                    /\ \A k \in 1..Len(sigs) : Len(shown[k]) = Len(sigs[k].v)
TriggeredAreExactlyThose == \A k \in 1..Len(trigs) : trigs[k] = Trig(shown[k])
FullIsSuperposition == last.op \in {"FullWaveform", "IsHitDuring"} =>
                          /\ last.res = WaveSt(sigs, last.t0, last.n, last.st)
                          /\ last.trig = Trig(last.res)
Stale == \E k \in 1..Len(shown) : shown[k] # WaveOf(sigs, sigs[k])
ReportedIsSuperposition == ~Stale                     \* violated by D9 (query - receive(overlap) - query)
StaleOnlyByD9 == [][(~Stale /\ Stale') => (last'.op = "Receive" /\ Len(shown) > 0)]_vars
ClearIsInit == last.op = "Clear" => sigs = <<>> /\ shown = <<>> /\ trigs = <<>>
NoiseMasterUntilReset == [][gen' # gen => (gen = 0 /\ gen' = ngen') \/ (last'.op = "Clear" /\ last'.reset /\ gen' = 0)]_vars
=============================================================================
