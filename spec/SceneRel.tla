------------------------------- MODULE SceneRel -------------------------------
(* Whole-scene relations of the simulation chain (generator event -> EventKernel -> ray tracer -> Askaryan model ->
   propagate -> antenna): not one listed property but the composition of C02 (symmetry of the tracer), C03
   (propagation), C07 (pulse), C08 / C09 (antenna response and bookkeeping) and C10 (kernel).

   The scene is an event (particles with vertices and directions) and a list of antennas in horizontally stratified
   ice.  Transformations and their predicted effect on what each antenna records:
     Turn         the whole scene a quarter turn about the vertical through the origin      -> nothing changes
     Shift(v)     the whole scene moved horizontally by a lattice vector                     -> nothing changes
     SwapAnt(i)   antennas i and i+1 exchanged in the detector list                          -> records exchanged
     SwapPart     the two particles of the event exchanged                                   -> per antenna, the two
                                                                                                groups of signals exchanged
   `aperm` and `pperm` are the bookkeeping: antenna j of the current scene must record what antenna aperm[j] of the
   base scene recorded, with particle blocks in the order pperm.  Consistent: the bookkeeping is the composition of
   the swaps applied (kept independently as the list `hist`).                                                *)
EXTENDS Integers, Sequences, FiniteSets, TLC

CONSTANTS NAnt, Shifts, Scenes

VARIABLES scene, turns, shift, aperm, pperm, hist, last
vars == <<scene, turns, shift, aperm, pperm, hist, last>>

Id(n) == [i \in 1..n |-> i]
SwapAt(p, i) == [j \in 1..Len(p) |-> IF j = i THEN p[i + 1] ELSE IF j = i + 1 THEN p[i] ELSE p[j]]
RotV(v) == <<0 - v[2], v[1]>>

Init == /\ scene \in Scenes /\ turns = 0 /\ shift = <<0, 0>>
        /\ aperm = Id(NAnt) /\ pperm = Id(2) /\ hist = <<>>
        /\ last = [op |-> "Init"]
Turn == /\ turns' = (turns + 1) % 4 /\ shift' = RotV(shift)
        /\ last' = [op |-> "Turn"]
        /\ UNCHANGED <<scene, aperm, pperm, hist>>
Shift(v) == /\ shift' = <<shift[1] + v[1], shift[2] + v[2]>>
            /\ last' = [op |-> "Shift", v |-> v]
            /\ UNCHANGED <<scene, turns, aperm, pperm, hist>>
SwapAnt(i) == /\ aperm' = SwapAt(aperm, i) /\ hist' = Append(hist, i)
              /\ last' = [op |-> "SwapAnt", i |-> i]
              /\ UNCHANGED <<scene, turns, shift, pperm>>
SwapPart == /\ pperm' = SwapAt(pperm, 1) /\ hist' = Append(hist, 0)
            /\ last' = [op |-> "SwapPart"]
            /\ UNCHANGED <<scene, turns, shift, aperm>>
Next == Turn \/ (\E v \in Shifts : Shift(v)) \/ (\E i \in 1..(NAnt - 1) : SwapAnt(i)) \/ SwapPart
Spec == Init /\ [][Next]_vars

(* the bookkeeping is the composition of the swaps in hist *)
RECURSIVE Replay(_, _)
Replay(h, p) == IF h = <<>> THEN p ELSE Replay(Tail(h), IF Head(h) = 0 THEN p ELSE SwapAt(p, Head(h)))
RECURSIVE CountZero(_)
CountZero(h) == IF h = <<>> THEN 0 ELSE (IF Head(h) = 0 THEN 1 ELSE 0) + CountZero(Tail(h))
Consistent == /\ aperm = Replay(hist, Id(NAnt))
              /\ pperm = (IF CountZero(hist) % 2 = 0 THEN Id(2) ELSE <<2, 1>>)
              /\ {aperm[j] : j \in 1..NAnt} = 1..NAnt
=============================================================================
