SPECIFICATION Spec
CONSTANTS
  Families <- FamiliesC12
  AddParams <- ParamsTiny
  MaxAdds = 3
  MaxFails = 1
  MaxSessions = 2
  AsIsSplit = FALSE
  AsIsNoRollback = FALSE
  AsIsNegSlice = TRUE
  AsIsNoEmptyRow = FALSE
INVARIANT LenIsAccepted
INVARIANT RoundTrip
INVARIANT IterAgree
INVARIANT IndexAgree
INVARIANT SliceAgree
CHECK_DEADLOCK FALSE
