------------------------------- MODULE Filter -------------------------------
(* C05 -- Signal.filter_frequencies as a discrete convolution.

   A response built from integer taps  H(f) = SUM_j g_j exp(-2 pi i f d_j dt)  is an integer FIR
   kernel.  The code zero-pads the N samples to 2N, multiplies spectra and keeps the first N
   samples: AsImpl is that circular convolution of length 2N.  The property demands the linear
   convolution with everything shifted out of the window dropped: Expected.  Three signals
   a, b and c = a + K*b are carried through the same filters, so linearity is an invariant of a
   behaviour; NoWrap is the theorem that the zero padding prevents wrap-around for all taps
   within -N..N; taps in N+1..2N-1 wrap (defect D10, open known finding).                       *)
EXTENDS Integers, Sequences, FiniteSets, TLC

CONSTANTS Ns,          \* signal lengths
          SigVals,     \* sample values
          Kernels,     \* set of kernels: Seq of <<d, g>> taps (d in samples, may be negative)
          Bs,          \* second signals (the first ranges over all of [1..N -> SigVals])
          Variants,    \* subset of {"vec", "scalar", "narrow", "table", "posonly"} x BOOLEAN explored
          K,           \* the scalar of the linear combination
          MaxFilters

VARIABLES N, a, b, c, nf, last
vars == <<N, a, b, c, nf, last>>

Mod(x, m) == x % m
RECURSIVE SumTaps(_, _, _, _)
(* circular convolution over the zero-padded length 2N, sample n (0-based) *)
SumTaps(h, x, n, impl) ==
    IF h = <<>> THEN 0
    ELSE LET d == Head(h)[1]  g == Head(h)[2]
             m == IF impl THEN Mod(n - d, 2 * Len(x)) ELSE n - d
             v == IF m >= 0 /\ m < Len(x) THEN x[m + 1] ELSE 0
         IN g * v + SumTaps(Tail(h), x, n, impl)
AsImpl(h, x)   == [n \in 1..Len(x) |-> SumTaps(h, x, n - 1, TRUE)]
Expected(h, x) == [n \in 1..Len(x) |-> SumTaps(h, x, n - 1, FALSE)]
Energy(x) == LET RECURSIVE e(_) e(n) == IF n = 0 THEN 0 ELSE x[n] * x[n] + e(n - 1) IN e(Len(x))
Within(h, n) == \A j \in 1..Len(h) : h[j][1] >= 0 - n /\ h[j][1] <= n

Init == /\ N \in Ns
        /\ a \in [1..N -> SigVals] /\ b \in {x \in Bs : Len(x) = N}
        /\ c = [n \in 1..N |-> a[n] + K * b[n]]
        /\ nf = 0 /\ last = [op |-> "Init"]

(* variant: "vec" vectorised response, "scalar" scalar-only function, "narrow" scalar-only returning int / float / complex as the value allows, "posonly" defined for f >= 0 only (needs force_real) *)
Apply(h, variant, forceReal) ==
    /\ nf < MaxFilters
    /\ variant = "posonly" => forceReal
    /\ a' = AsImpl(h, a) /\ b' = AsImpl(h, b) /\ c' = AsImpl(h, c)
    /\ nf' = nf + 1
    /\ last' = [op |-> "Apply", h |-> h, variant |-> variant, force_real |-> forceReal,
                wraps |-> ~Within(h, N), expected |-> Expected(h, a), before |-> a]
    /\ UNCHANGED N

Next == \E h \in Kernels, vf \in Variants : Apply(h, vf[1], vf[2])
Spec == Init /\ [][Next]_vars

Linear == \A n \in 1..N : c[n] = a[n] + K * b[n]
NoWrap == last.op = "Apply" /\ ~last.wraps => a = last.expected
Unit   == last.op = "Apply" /\ last.h = <<<<0, 1>>>> => a = last.before
Passive == last.op = "Apply" /\ Len(last.h) = 1 /\ last.h[1][2] \in {-1, 0, 1} => Energy(a) <= Energy(last.before)
PureDelayShifts == last.op = "Apply" /\ Len(last.h) = 1 /\ last.h[1][2] = 1 /\ last.h[1][1] >= 0 /\ ~last.wraps =>
                      \A n \in 1..N : a[n] = (IF n - last.h[1][1] >= 1 THEN last.before[n - last.h[1][1]] ELSE 0)
NeverWraps == last.op = "Apply" => a = last.expected       \* violated for taps beyond N (D10)
=============================================================================
