SPECIFICATION TraceSpec
CONSTANTS
  Scenarios = {}
CONSTRAINT Track
POSTCONDITION Verdicts
INVARIANT OffConeOnlySubstitutes
INVARIANT OneSignalPerSolution
INVARIANT PathsPolsAligned
INVARIANT WriterGetsWhatAntennasGot
INVARIANT TriggerIsFunctionOfAntennas
CHECK_DEADLOCK FALSE
