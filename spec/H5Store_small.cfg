SPECIFICATION Spec
CONSTANTS
  Families <- FamiliesSmall
  AddParams <- ParamsSmall
  MaxAdds = 3
  MaxFails = 1
  MaxSessions = 2
  AsIsSplit = FALSE
  AsIsNoRollback = FALSE
  AsIsNegSlice = FALSE
  AsIsNoEmptyRow = FALSE
INVARIANT LenIsAccepted
INVARIANT IndexInRange
INVARIANT RoundTrip
INVARIANT IterAgree
INVARIANT IndexAgree
INVARIANT SliceAgree
PROPERTY RejectedAddIsInvisible
CHECK_DEADLOCK FALSE
