SPECIFICATION Spec
CONSTANTS
  MaxParticles = 6
  Cands <- CandsAll
CONSTRAINT LevelBound
INVARIANT IterOnce
INVARIANT OneParent
INVARIANT LevelsPartition
INVARIANT ChildrenComeLater
INVARIANT SumAtMostOne
INVARIANT CCeSumsToOne
INVARIANT NCAllHadronic
CHECK_DEADLOCK FALSE
