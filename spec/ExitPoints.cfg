SPECIFICATION Spec
CONSTANTS
  X = 4
  Y = 3
  Z = 4
  R = 5
  Coords <- CoordsAll
  Dirs <- DirsAll
  MaxRoot = 200
INVARIANT VertexBetween
INVARIANT OnBoundary
CHECK_DEADLOCK FALSE
