----------------------------- MODULE FuncSignal -----------------------------
(* C06 (signals) -- function-backed signals never serve stale values.

   A FunctionSignal is its definition: a time grid and a list of components
   [fn, t0, lead, trail, fac, delay, gain, nf] (function, time offset, leading and
   trailing buffer times, scale factor, and the product of its filters: filters
   here are integer delays with integer gains, for which the zero-padded FFT
   filter of the code is an exact shift -- samples shifted in from before the
   buffer-extended grid are zero).  Eval(o) is the eager meaning the property
   demands.  `cache` models the lazy `values` property: Read fills it, and each
   public operation clears it exactly where the code does.  NoStale is the
   property.  Times are integer ticks (real time = tick/2).

   AsIsSetBuffers = TRUE is the code before the repair of D2 (set_buffers mutates
   the buffer lists in place and forgets to clear the cache).                  *)
EXTENDS Integers, Sequences, FiniteSets, TLC

CONSTANTS MaxObjs, Grids, Fns, Scales, Divs, Shifts, Delays, Gains, Buffers, Resamples,
          AsIsSetBuffers

VARIABLES objs,      \* Seq of [g : grid, comps : Seq(component), cache : <<>> (none) or <<values>>]
          last
vars == <<objs, last>>

Abs(x) == IF x < 0 THEN -x ELSE x
Max(a, b) == IF a > b THEN a ELSE b
F(fn, x) == CASE fn = "lin"   -> 4 * x
              [] fn = "step"  -> (IF x >= 0 THEN 16 ELSE 0)
              [] fn = "tri"   -> (IF Abs(x) > 4 THEN 0 ELSE 16 * (4 - Abs(x)))
              [] fn = "sstep" -> (IF x >= 2 THEN 8 ELSE 0)

Dt(g) == g[2] - g[1]
CeilDiv(a, b) == (a + b - 1) \div b
NB(c, g) == CeilDiv(c.lead, Dt(g))            \* points in the leading buffer
NA(c, g) == CeilDiv(c.trail, Dt(g))

(* value of one component at window index n (1-based) *)
CompVal(c, g, n) ==
    IF c.nf = 0 THEN c.fac * F(c.fn, g[n] - c.t0)
    ELSE LET ds == c.delay \div Dt(g)                      \* delay in samples (exact by guard)
             m  == (n - 1) + NB(c, g) - ds                 \* source index in the buffer-extended array, 0-based
             M  == NB(c, g) + Len(g) + NA(c, g)
         IN IF m < 0 \/ m > M - 1 THEN 0
            ELSE c.gain * c.fac * F(c.fn, g[n] - c.delay - c.t0)

RECURSIVE SumC(_, _, _)
SumC(comps, g, n) == IF comps = <<>> THEN 0 ELSE CompVal(Head(comps), g, n) + SumC(Tail(comps), g, n)
Eval(o) == [n \in 1..Len(o.g) |-> SumC(o.comps, o.g, n)]

(* the model is exact (and free of wrap-around, which is C05's topic) when every delay is a whole number of
   samples no longer than the zero padding *)
ExactC(c, g) == c.nf = 0 \/ (c.delay % Dt(g) = 0 /\ Abs(c.delay \div Dt(g)) <= NB(c, g) + Len(g) + NA(c, g))
Exact(o) == \A i \in 1..Len(o.comps) : ExactC(o.comps[i], o.g)

NewComp(fn) == [fn |-> fn, t0 |-> 0, lead |-> 0, trail |-> 0, fac |-> 1, delay |-> 0, gain |-> 1, nf |-> 0]
Fresh(g, comps) == [g |-> g, comps |-> comps, cache |-> <<>>]
MapC(comps, Op(_)) == [i \in 1..Len(comps) |-> Op(comps[i])]

Init == objs = <<>> /\ last = [op |-> "Init"]

New(g, fn) == /\ Len(objs) < MaxObjs
              /\ objs' = Append(objs, Fresh(g, <<NewComp(fn)>>))
              /\ last' = [op |-> "New", g |-> g, fn |-> fn, slot |-> Len(objs) + 1]

(* reading the lazy property: returns the cache if there is one (as the code does) *)
Read(i) == LET o == objs[i]
               v == IF o.cache # <<>> THEN o.cache[1] ELSE Eval(o)
           IN /\ objs' = [objs EXCEPT ![i].cache = <<v>>]
              /\ last' = [op |-> "Read", a |-> i, res |-> v, fresh |-> Eval(o)]

(* in-place operations: cache cleared through __setattr__ of a static attribute *)
Mutate(i, o2, rec) == /\ Exact(o2)
                      /\ objs' = [objs EXCEPT ![i] = o2]
                      /\ last' = rec

Shift(i, d) == LET o == objs[i]  Sh(c) == [c EXCEPT !.t0 = @ + d] IN
    Mutate(i, Fresh([n \in 1..Len(o.g) |-> o.g[n] + d], MapC(o.comps, Sh)), [op |-> "Shift", a |-> i, d |-> d])

IMul(i, k) == LET o == objs[i]  Sc(c) == [c EXCEPT !.fac = @ * k] IN
    Mutate(i, Fresh(o.g, MapC(o.comps, Sc)), [op |-> "IMul", a |-> i, k |-> k])

IDiv(i, k) == LET o == objs[i]  Dv(c) == [c EXCEPT !.fac = @ \div k] IN
    /\ \A n \in 1..Len(o.comps) : o.comps[n].fac % k = 0
    /\ Mutate(i, Fresh(o.g, MapC(o.comps, Dv)), [op |-> "IDiv", a |-> i, k |-> k])

Filter(i, d, gn, fr) == LET o == objs[i]  Fl(c) == [c EXCEPT !.delay = @ + d, !.gain = @ * gn, !.nf = @ + 1] IN
    /\ \A n \in 1..Len(o.comps) : o.comps[n].nf < 2
    /\ Mutate(i, Fresh(o.g, MapC(o.comps, Fl)), [op |-> "Filter", a |-> i, d |-> d, gain |-> gn, force_real |-> fr])

None == -1
SetBuf(c, lead, trail, force) ==
    [c EXCEPT !.lead  = IF lead = None THEN @ ELSE IF force THEN lead ELSE Max(@, lead),
              !.trail = IF trail = None THEN @ ELSE IF force THEN trail ELSE Max(@, trail)]
SetBuffers(i, lead, trail, force) ==
    LET o == objs[i]  Sb(c) == SetBuf(c, lead, trail, force)
        o2 == [g |-> o.g, comps |-> MapC(o.comps, Sb),
               cache |-> IF AsIsSetBuffers THEN o.cache ELSE <<>>]       \* D2: in-place list mutation, no clear
    IN /\ lead # None \/ trail # None
       /\ Mutate(i, o2, [op |-> "SetBuffers", a |-> i, lead |-> lead, trail |-> trail, force |-> force])

(* set_buffers with a negative trailing time: the leading buffers have already been changed in place when the
   ValueError is raised (the definition changed), so the cache must not survive *)
SetBuffersFail(i, lead, force) ==
    LET o == objs[i]  Sb(c) == SetBuf(c, lead, None, force)
        o2 == [g |-> o.g, comps |-> MapC(o.comps, Sb), cache |-> <<>>]
    IN Mutate(i, o2, [op |-> "SetBuffersFail", a |-> i, lead |-> lead, trail |-> -2, force |-> force])

Resample(i, n) == LET o == objs[i]
                      span == o.g[Len(o.g)] - o.g[1]
                  IN /\ n >= 2 /\ n # Len(o.g) /\ span % (n - 1) = 0
                     /\ Mutate(i, Fresh([k \in 1..n |-> o.g[1] + (k - 1) * (span \div (n - 1))], o.comps),
                               [op |-> "Resample", a |-> i, n |-> n])

AssignTimes(i, g) == Mutate(i, Fresh(g, objs[i].comps), [op |-> "AssignTimes", a |-> i, g |-> g])
(* `sig.times += d`: the array is changed in place and the very same object is assigned back; the grid moves, the
   function's own time origin does not (unlike shift) *)
AugTimes(i, d) == LET o == objs[i] IN
    Mutate(i, Fresh([n \in 1..Len(o.g) |-> o.g[n] + d], o.comps), [op |-> "AugTimes", a |-> i, d |-> d])

(* operations returning a new object *)
Make(o2, rec) == /\ Len(objs) < MaxObjs /\ Exact(o2)
                 /\ objs' = Append(objs, o2)
                 /\ last' = rec @@ [slot |-> Len(objs) + 1]

Copy(i) == Make(Fresh(objs[i].g, objs[i].comps), [op |-> "Copy", a |-> i])
Mul(i, k) == LET Sc(c) == [c EXCEPT !.fac = @ * k] IN
             Make(Fresh(objs[i].g, MapC(objs[i].comps, Sc)), [op |-> "Mul", a |-> i, k |-> k])
WithTimes(i, g) ==
    LET o == objs[i]
        inside == g[1] >= o.g[1] /\ g[Len(g)] <= o.g[Len(o.g)]
        Sb(c) == SetBuf(c, g[1] - o.g[1], o.g[Len(o.g)] - g[Len(g)], FALSE)
    IN Make(Fresh(g, IF inside THEN MapC(o.comps, Sb) ELSE o.comps), [op |-> "WithTimes", a |-> i, g |-> g])
Add(i, j) == /\ objs[i].g = objs[j].g
             /\ Len(objs[i].comps) + Len(objs[j].comps) <= 3
             /\ Make(Fresh(objs[i].g, objs[i].comps \o objs[j].comps), [op |-> "Add", a |-> i, b |-> j])

Next == \/ \E g \in Grids, fn \in Fns : New(g, fn)
        \/ \E i \in 1..Len(objs) : Read(i)
        \/ \E i \in 1..Len(objs), d \in Shifts : Shift(i, d)
        \/ \E i \in 1..Len(objs), k \in Scales : IMul(i, k)
        \/ \E i \in 1..Len(objs), k \in Divs : IDiv(i, k)
        \/ \E i \in 1..Len(objs), d \in Delays, gn \in Gains, fr \in BOOLEAN : Filter(i, d, gn, fr)
        \/ \E i \in 1..Len(objs), ld \in Buffers, tr \in Buffers, f \in BOOLEAN : SetBuffers(i, ld, tr, f)
        \/ \E i \in 1..Len(objs), ld \in Buffers, f \in BOOLEAN : SetBuffersFail(i, ld, f)
        \/ \E i \in 1..Len(objs), n \in Resamples : Resample(i, n)
        \/ \E i \in 1..Len(objs), g \in Grids : AssignTimes(i, g)
        \/ \E i \in 1..Len(objs), d \in Shifts : AugTimes(i, d)
        \/ \E i \in 1..Len(objs) : Copy(i)
        \/ \E i \in 1..Len(objs), k \in Scales : Mul(i, k)
        \/ \E i \in 1..Len(objs), g \in Grids : WithTimes(i, g)
        \/ \E i \in 1..Len(objs), j \in 1..Len(objs) : Add(i, j)
Spec == Init /\ [][Next]_vars

(* ------------------------------ properties ------------------------------ *)
NoStale == \A i \in 1..Len(objs) : objs[i].cache # <<>> => objs[i].cache[1] = Eval(objs[i])
ReadIsEager == last.op = "Read" => last.res = last.fresh
(* a new object is independent of its operands: operations on one never change the other's meaning *)
Target == IF last'.op \in {"Shift", "IMul", "IDiv", "Filter", "SetBuffers", "SetBuffersFail", "Resample", "AssignTimes", "AugTimes", "Read"}
          THEN {last'.a} ELSE {}
Independent == [][\A i \in 1..Len(objs) : i \notin Target => Eval(objs'[i]) = Eval(objs[i])]_vars
=============================================================================
