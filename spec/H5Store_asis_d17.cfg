SPECIFICATION Spec
CONSTANTS
  Families <- FamiliesAll
  AddParams <- ParamsSmall
  MaxAdds = 2
  MaxFails = 3
  MaxSessions = 3
  AsIsSplit = FALSE
  AsIsNoRollback = FALSE
  AsIsNegSlice = FALSE
  AsIsNoEmptyRow = TRUE
INVARIANT LenIsAccepted
INVARIANT IndexInRange
INVARIANT RoundTrip
PROPERTY RejectedAddIsInvisible
CHECK_DEADLOCK FALSE
