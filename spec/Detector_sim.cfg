SPECIFICATION Spec
CONSTANTS
  MaxObjs = 14
  Terminal = {}
  StrSizes = {1, 2}
  Aboves = {TRUE, FALSE}
  Ops <- OpsAll
  AsIsIAdd = FALSE

INVARIANT EachOnce
INVARIANT PlusIsConcat
INVARIANT SumIsConcat
INVARIANT NoAntennaAboveIce
INVARIANT TriggeredIffAnyHit
INVARIANT ClearAll
PROPERTY RejectedLeavesUnchanged
CHECK_DEADLOCK FALSE
