SPECIFICATION Spec
CONSTANTS
  MaxObjs = 14
  AsIsIAdd = FALSE

INVARIANT EachOnce
INVARIANT PlusIsConcat
INVARIANT SumIsConcat
INVARIANT NoAntennaAboveIce
INVARIANT TriggeredIffAnyHit
INVARIANT ClearAll
PROPERTY RejectedLeavesUnchanged
CHECK_DEADLOCK FALSE
