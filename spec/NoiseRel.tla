------------------------------- MODULE NoiseRel -------------------------------
(* C17 (relational core) -- a thermal-noise object is a function of absolute time fixed by its published basis.

   Time is counted in half samples (ticks): the grid a noise object is built on has its samples at even ticks.
   An object is [basis, w0, wn, st, delay]: which random basis it carries, its current window (first tick, number of
   samples, stride in ticks) and by how many ticks its time axis has been shifted since construction.  The meaning
   of an object is   value at tick t  =  F_basis(t - delay),   F_basis the sum of the published cosines; the driver
   evaluates F from the attributes (freqs, amps, phases, rms) of the real object that first carried the basis and
   compares every sample of every object with it after every step.  For the FFT implementation values between
   master samples are linear interpolations, so only samples with OnLattice are compared (the property speaks of
   shared sample times).  Objects with different bases must differ.                                              *)
EXTENDS Integers, Sequences, FiniteSets, TLC

CONSTANTS Impls, Bands, AmpSpecs, Uniqs, Lengths, RmsModes, Windows, Shifts, MaxObjs

VARIABLES impl, band, amp, uniq, n, rmsmode,     \* fixed per behaviour
          objs, nbasis, last
vars == <<impl, band, amp, uniq, n, rmsmode, objs, nbasis, last>>

W0 == 10                                    \* first tick of the construction grid
Master == [basis |-> 1, w0 |-> W0, wn |-> n, st |-> 2, delay |-> 0]

Init == /\ impl \in Impls /\ band \in Bands /\ amp \in AmpSpecs /\ uniq \in Uniqs /\ n \in Lengths /\ rmsmode \in RmsModes
        /\ objs = <<Master>> /\ nbasis = 1
        /\ last = [op |-> "Init"]
Fixed == UNCHANGED <<impl, band, amp, uniq, n, rmsmode>>

(* sample k (0-based) of object o lies on the lattice of the grid its basis was built on *)
Tick(o, k) == o.w0 + k * o.st
OnLattice(o, k) == (Tick(o, k) - o.delay - W0) % 2 = 0
(* what an object shows at sample k: a symbolic value -- equal symbols <=> equal numbers *)
Val(o, k) == <<o.basis, Tick(o, k) - o.delay>>

WithTimes(i, w) == /\ Len(objs) < MaxObjs
                   /\ objs' = Append(objs, [objs[i] EXCEPT !.w0 = w[1], !.wn = w[2], !.st = w[3]])
                   /\ last' = [op |-> "WithTimes", a |-> i, w0 |-> w[1], wn |-> w[2], st |-> w[3], slot |-> Len(objs) + 1]
                   /\ Fixed /\ UNCHANGED nbasis
(* a window that starts where the construction grid starts (as seen by the object), has exactly the number of samples of one
   FFT period and another stride: everything about it matches the internal FFT grid except the step *)
UniqInt == IF uniq = 25 THEN 2 ELSE uniq            \* 25 stands for the factor 2.5, which the implementation truncates
FullPeriod(i, st) == WithTimes(i, <<W0 + objs[i].delay, UniqInt * n, st>>)
Shift(i, d) == /\ objs' = [objs EXCEPT ![i].w0 = @ + d, ![i].delay = @ + d]
               /\ last' = [op |-> "Shift", a |-> i, d |-> d]
               /\ Fixed /\ UNCHANGED nbasis
Copy(i) == /\ Len(objs) < MaxObjs
           /\ objs' = Append(objs, objs[i])
           /\ last' = [op |-> "Copy", a |-> i, slot |-> Len(objs) + 1]
           /\ Fixed /\ UNCHANGED nbasis
(* a new object built with the same arguments and given the published basis of object i *)
Rebuild(i) == /\ Len(objs) < MaxObjs
              /\ objs' = Append(objs, [Master EXCEPT !.basis = objs[i].basis])
              /\ last' = [op |-> "Rebuild", a |-> i, slot |-> Len(objs) + 1]
              /\ Fixed /\ UNCHANGED nbasis
(* an independent object: same arguments, the random stream continues *)
Fresh == /\ Len(objs) < MaxObjs
         /\ nbasis' = nbasis + 1
         /\ objs' = Append(objs, [Master EXCEPT !.basis = nbasis + 1])
         /\ last' = [op |-> "Fresh", slot |-> Len(objs) + 1]
         /\ Fixed

Next == \/ \E i \in 1..Len(objs), w \in Windows : WithTimes(i, w)
        \/ \E i \in 1..Len(objs), st \in {1, 4, 6} : FullPeriod(i, st)
        \/ \E i \in 1..Len(objs), d \in Shifts : Shift(i, d)
        \/ \E i \in 1..Len(objs) : Copy(i)
        \/ \E i \in 1..Len(objs) : Rebuild(i)
        \/ Fresh
Spec == Init /\ [][Next]_vars

(* ------------------------------ properties ------------------------------ *)
(* function of absolute time: two objects of one basis that were shifted alike show the same value at every shared tick *)
SharedTicksAgree ==
    \A i, j \in 1..Len(objs) : (objs[i].basis = objs[j].basis /\ objs[i].delay = objs[j].delay) =>
        \A k \in 0..(objs[i].wn - 1), l \in 0..(objs[j].wn - 1) :
            Tick(objs[i], k) = Tick(objs[j], l) => Val(objs[i], k) = Val(objs[j], l)
(* shifting an object never changes what it shows at a given sample index *)
ShiftKeepsSamples == [][last'.op = "Shift" =>
                          \A k \in 0..(objs[last'.a].wn - 1) : Val(objs'[last'.a], k) = Val(objs[last'.a], k)]_vars
(* operations on one object leave every other object alone *)
OthersUntouched == [][\A i \in 1..Len(objs) : (last'.op # "Shift" \/ last'.a # i) => objs'[i] = objs[i]]_vars
BasesCounted == \A i \in 1..Len(objs) : objs[i].basis \in 1..nbasis
=============================================================================
