---- MODULE FuncSignalMC ----
EXTENDS FuncSignal
GridsSmall == {<<0, 2, 4, 6>>, <<2, 4>>}
GridsSim   == {<<0, 2, 4, 6>>, <<2, 4>>, <<0, 2, 4>>, <<4, 6>>, <<0, 1, 2, 3, 4>>, <<-4, 0, 4, 8>>, <<-3, -1, 1, 3, 5, 7>>, <<1000000, 1000002, 1000004>>}
FnsSmall   == {"lin", "step"}
FnsSim     == {"lin", "step", "tri", "sstep"}
ScalesAll  == {2, -1}
ShiftsAll  == {2, -3}
DelaysSmall == {2}
DelaysSim  == {2, 4, -2, 1, 0}
GainsAll   == {1, 2, -1}
BuffersSmall == {None, 0, 2}
BuffersSim == {None, 0, 1, 2, 3, 5}
GridsOne == {<<0, 2, 4, 6>>}
GridsEdge == {<<0, 2, 4, 6>>, <<0, 2, 4>>, <<4, 6>>, <<2, 4, 6>>, <<2, 4>>}     \* windows sharing one edge with <<0, 2, 4, 6>>
NoInts == {}
BuffersAlias == {None, 2, 4}
LevelBound == TLCGet("level") <= 5
LevelBoundG == TLCGet("level") <= 4
====
