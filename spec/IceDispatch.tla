------------------------------ MODULE IceDispatch ------------------------------
(* C16 (discrete core) -- the case structure of the ice models.

   Region: an ice model has a closed valid depth range [lo, hi]; a depth strictly below it reports
   index_below, strictly above it index_above, and on the bounds and inside the model's own index.
   Layers: a stack of adjacent layers (top first); a depth belongs to the layer with lo < z <= hi,
   the lowest layer also owning its lower bound; above / below the stack the stack's outside indices.
   Shapes: attenuation_length(z, f) is a scalar, a vector over z, a vector over f or a
   len(z) x len(f) matrix according to which arguments are arrays, and every entry equals the scalar
   evaluation.  TLC checks that the dispatch is total and unique on a lattice containing every bound
   and both neighbours; the driver evaluates the real models on exactly those cases.             *)
EXTENDS Integers, Sequences, FiniteSets, TLC

CONSTANTS Ranges,        \* set of <<lo, hi>>
          Stacks,        \* set of Seq(<<lo, hi>>) top layer first, adjacent
          Depths,
          Shapes         \* set of <<zIsArray, fIsArray>>

VARIABLES cs, last
vars == <<cs, last>>

Region(z, rg) == IF z < rg[1] THEN "below" ELSE IF z > rg[2] THEN "above" ELSE "inside"
LayerOf(z, st) == LET own == {k \in 1..Len(st) : (st[k][1] < z /\ z <= st[k][2]) \/ (k = Len(st) /\ z = st[k][1])}
                  IN IF own = {} THEN (IF z > st[1][2] THEN "above" ELSE "below") ELSE (CHOOSE k \in own : TRUE)
Owners(z, st) == {k \in 1..Len(st) : (st[k][1] < z /\ z <= st[k][2]) \/ (k = Len(st) /\ z = st[k][1])}
ShapeOf(sh, nz, nf) == CASE sh[1] /\ sh[2] -> <<nz, nf>> [] sh[1] -> <<nz>> [] sh[2] -> <<nf>> [] OTHER -> <<>>

(* depth_with_index(n): an index smaller than the one at the top of the range clamps to the top, one larger than
   the index at the bottom clamps to the bottom (also beyond the asymptote n0), anything between is inverted *)
NPositions == {"below_top", "at_top", "middle", "at_bottom", "above_bottom", "beyond_asymptote"}
InvRegion(pos) == CASE pos = "below_top" -> "clamp_top"
                    [] pos \in {"above_bottom", "beyond_asymptote"} -> "clamp_bottom"
                    [] OTHER -> "inverted"

Cases == [kind : {"range"}, rg : Ranges, z : Depths] \cup [kind : {"stack"}, st : Stacks, z : Depths]
         \cup [kind : {"shape"}, sh : Shapes, rg : Ranges] \cup [kind : {"inverse"}, rg : Ranges, pos : NPositions]

Init == cs \in Cases /\ last = [op |-> "Init"]
Dispatch == /\ last.op = "Init"
            /\ last' = CASE cs.kind = "range" -> [op |-> "Dispatch", region |-> Region(cs.z, cs.rg)]
                         [] cs.kind = "stack" -> [op |-> "Dispatch", layer |-> LayerOf(cs.z, cs.st)]
                         [] cs.kind = "shape" -> [op |-> "Dispatch", shape |-> ShapeOf(cs.sh, 3, 2)]
                         [] cs.kind = "inverse" -> [op |-> "Dispatch", inv |-> InvRegion(cs.pos)]
            /\ UNCHANGED cs
Next == Dispatch
Spec == Init /\ [][Next]_vars

BoundsBelongToTheIce == cs.kind = "range" /\ last.op = "Dispatch" /\ cs.z \in {cs.rg[1], cs.rg[2]} => last.region = "inside"
UniqueLayer == cs.kind = "stack" => Cardinality(Owners(cs.z, cs.st)) <= 1
TotalInsideStack == cs.kind = "stack" /\ cs.z <= cs.st[1][2] /\ cs.z >= cs.st[Len(cs.st)][1] => Cardinality(Owners(cs.z, cs.st)) = 1
=============================================================================
