SPECIFICATION Spec
CONSTANTS
  Tracers = {"specialized-antarctic", "uniform", "layered", "basic-antarctic", "specialized-above"}
  Geos = {1, 2, 3, 4, 5, 6}
  Interps = {0, 1}
  Factors <- FactorsMC
  Moves <- MovesMC
  Bound = 6
  Steps = {1, 2, 3}
  MaxLevel = 6
CONSTRAINT LevelBound
INVARIANT Consistent
CHECK_DEADLOCK FALSE
