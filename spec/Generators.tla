------------------------------ MODULE Generators ------------------------------
(* C13 (state-machine core) -- throw counting and list replay of the event generators.

   kind = "random": Generator.create_event throws until a neutrino survives (with shadowing a
     throw is rejected when it does not survive the Earth); `count` increases by one for every
     throw, rejected ones included.  The outcome of each throw is scripted by the driver.
   kind = "list": ListGenerator with n events: index, loop flag, count = index + offset
     (count is assignable), StopIteration past the end when not looping.
   Particle types: thresholds over the two random numbers (in percent) for flavour ratios
   given in percent and the source's neutrino / antineutrino ratios.                        *)
EXTENDS Integers, Sequences, TLC

CONSTANTS MaxCalls, ListLens, ThrowSeqs, Ratios, Percents

VARIABLES kind, shadow, n, loop, index, count, calls, last
vars == <<kind, shadow, n, loop, index, count, calls, last>>

Init == /\ kind \in {"random", "list"}
        /\ shadow \in BOOLEAN /\ loop \in BOOLEAN /\ n \in ListLens
        /\ (kind = "list" => ~shadow) /\ (kind = "random" => (n = 1 /\ loop))
        /\ index = 0 /\ count = 0 /\ calls = 0
        /\ last = [op |-> "Init"]

(* random generator: the throws of one create_event call; all but the last are rejected *)
CreateRandom(ts) == /\ kind = "random" /\ calls < MaxCalls
                    /\ shadow => ts[Len(ts)]                      \* with shadowing the call ends with a surviving throw
                    /\ ~shadow => Len(ts) = 1                      \* without, every throw is returned
                    /\ count' = count + Len(ts)
                    /\ calls' = calls + 1
                    /\ last' = [op |-> "CreateRandom", throws |-> Len(ts), count |-> count + Len(ts),
                                survives |-> ts[Len(ts)], shadow |-> shadow]
                    /\ UNCHANGED <<kind, shadow, n, loop, index>>

CreateList == /\ kind = "list" /\ calls < MaxCalls
              /\ calls' = calls + 1
              /\ IF ~loop /\ index >= n
                 THEN /\ last' = [op |-> "CreateList", res |-> "stop", count |-> count]
                      /\ UNCHANGED <<index, count>>
                 ELSE /\ index' = index + 1 /\ count' = count + 1
                      /\ last' = [op |-> "CreateList", res |-> "event", which |-> (index % n) + 1, count |-> count + 1]
              /\ UNCHANGED <<kind, shadow, n, loop>>

SetCount(c) == /\ kind = "list" /\ calls < MaxCalls /\ c # count
               /\ count' = c /\ calls' = calls + 1
               /\ last' = [op |-> "SetCount", c |-> c]
               /\ UNCHANGED <<kind, shadow, n, loop, index>>

(* particle type decision *)
NuBarPct(source, fl) == IF source = "astrophysical" THEN 50 ELSE (IF fl = "e" THEN 78 ELSE 61)
Flavour(rf, ratio) == IF rf < ratio[1] THEN "e" ELSE IF rf < ratio[1] + ratio[2] THEN "mu" ELSE "tau"
TypeOf(rf, rn, ratio, source) == LET fl == Flavour(rf, ratio) IN
                                 [flavour |-> fl, anti |-> ~(rn < NuBarPct(source, fl))]
PickType(rf, rn, ratio, source) ==
    /\ last.op = "Init" /\ kind = "random" /\ ~shadow
    /\ last' = [op |-> "PickType", rf |-> rf, rn |-> rn, ratio |-> ratio, source |-> source, res |-> TypeOf(rf, rn, ratio, source)]
    /\ UNCHANGED <<kind, shadow, n, loop, index, count, calls>>

Next == \/ \E ts \in ThrowSeqs : CreateRandom(ts)
        \/ CreateList
        \/ \E c \in {0, 7} : SetCount(c)
        \/ \E rf \in Percents, rn \in Percents, ratio \in Ratios, src \in {"cosmogenic", "astrophysical"} : PickType(rf, rn, ratio, src)
Spec == Init /\ [][Next]_vars

CountPerThrow == [][last'.op = "CreateRandom" => count' = count + last'.throws]_vars
ListCountIsIndexPlusOffset == [][last'.op = "CreateList" /\ last'.res = "event" => count' = count + 1 /\ index' = index + 1]_vars
ListStopsOnlyPastEnd == last.op = "CreateList" /\ last.res = "stop" => ~loop /\ index >= n
ListCycles == last.op = "CreateList" /\ last.res = "event" => last.which = ((index - 1) % n) + 1
=============================================================================
