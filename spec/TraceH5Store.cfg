SPECIFICATION TraceSpec
CONSTANTS
  Families = {}
  AddParams = {}
  MaxAdds = 100000
  MaxFails = 100000
  MaxSessions = 100000
  AsIsSplit = FALSE
  AsIsNoRollback = FALSE
  AsIsNegSlice = FALSE
  AsIsNoEmptyRow = FALSE
CONSTRAINT Track
POSTCONDITION Verdicts
INVARIANT IndexInRange
INVARIANT RoundTrip
CHECK_DEADLOCK FALSE
