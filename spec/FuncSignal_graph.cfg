SPECIFICATION Spec
CONSTANTS
  MaxObjs = 2
  Grids <- GridsSmall
  Fns <- FnsSmall
  Scales <- ScalesAll
  Divs = {2}
  Shifts <- ShiftsAll
  Delays <- DelaysSmall
  Gains = {2}
  Buffers <- BuffersSmall
  Resamples = {2, 4}
  AsIsSetBuffers = FALSE
CONSTRAINT LevelBoundG
INVARIANT NoStale
INVARIANT ReadIsEager
CHECK_DEADLOCK FALSE
