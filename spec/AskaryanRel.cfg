SPECIFICATION Spec
CONSTANTS
  Models = {"ZHS", "AVZ", "ARZ"}
  Lengths = {128, 129}
  Steps = {1, 2}
  Fractions <- FracsAll
  Factors = {2, 5}
  Moves <- MovesAll
  BothMoves <- BothAll
  Energies = {0, 1, 2, 3, 4}
  Ices = {1, 2}
  OffCone <- Angles
  MaxLevel = 4
CONSTRAINT LevelBound
INVARIANT Consistent
CHECK_DEADLOCK FALSE
