---- MODULE NoiseRelMC ----
EXTENDS NoiseRel
CONSTANT MaxLevel
WindowsMC == {<<10, 8, 2>>, <<4, 30, 2>>, <<20, 12, 4>>, <<11, 9, 1>>, <<-30, 150, 2>>, <<100010, 7, 2>>, <<13, 6, 3>>}
WindowsSmall == {<<10, 8, 2>>, <<4, 30, 2>>, <<20, 12, 4>>, <<11, 9, 1>>, <<13, 6, 3>>}
ShiftsMC == {6, -4, 3}
LevelBound == TLCGet("level") <= MaxLevel
====
