---- MODULE EventTreeMC ----
EXTENDS EventTree
CandsAll == {<<<<1, 0>>>>, <<<<0, 4>>>>, <<<<12, 0>>, <<3, 0>>>>, <<<<6, 6>>, <<0, 11>>, <<0, 1>>>>, <<<<7, 1>>>>, <<<<0, 0>>>>,
             <<<<4, 3>>, <<1, 1>>>>}
LevelBound == TLCGet("level") <= 6
====
