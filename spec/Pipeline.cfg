SPECIFICATION Spec
CONSTANTS
  Scripts <- ScriptsAll
  NAnt = 2
  Sols = 2
INVARIANT EveryEventWritten
INVARIANT ParticlesAreTheGenerators
INVARIANT ThrownAddsUp
INVARIANT WaveformsMatchRays
INVARIANT StaleSignalsShowUp
INVARIANT ResimulationSeesTheSameStream
CHECK_DEADLOCK FALSE
