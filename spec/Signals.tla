------------------------------ MODULE Signals ------------------------------
(* C04 -- signals keep times and values aligned, copy independently and combine
   pointwise.  Model of pyrex/signals.py: Signal, EmptySignal, FunctionSignal.

   Every numpy array the code holds is an entry of the array store `arr`; objects
   refer to arrays by id, so aliasing is expressible and the caller's writes into
   arrays it owns (`ext`) or into `o.values` are ordinary actions.  Times are
   integer ticks (real time = tick/2), values are integers; actions whose exact
   result would not be an integer are disabled (guards `Exact...`), so the real
   code's IEEE arithmetic is exact on every behaviour of this model.

   One action per public call; `last` carries the call and its expected outcome
   so that every behaviour is executable against the real classes.            *)
EXTENDS Integers, Sequences, FiniteSets, TLC

CONSTANTS MaxObjs,         \* bound on live signal objects
          MaxArr,          \* bound on array store
          Grids,           \* set of tick sequences (strictly increasing)
          ValShapes,       \* set of value sequences handed to the constructor
          VTypes,          \* subset of 0..3 (undefined, voltage, field, power)
          Fns,             \* function kinds
          Scales,          \* multipliers
          Divs,            \* divisors
          Shifts,          \* shifts in ticks
          Pokes,           \* values the caller writes
          AliasWithTimes   \* TRUE = as-is model of defect D1 (FunctionSignal.with_times keeps the caller's array)

VARIABLES objs, arr, ext, last
vars == <<objs, arr, ext, last>>

Abs(x) == IF x < 0 THEN -x ELSE x

(* integer-valued functions of integer ticks; "sstep" is scalar-only in the driver *)
F(fn, x) == CASE fn = "lin"   -> 4 * x
              [] fn = "step"  -> (IF x >= 0 THEN 16 ELSE 0)
              [] fn = "tri"   -> (IF Abs(x) > 4 THEN 0 ELSE 16 * (4 - Abs(x)))
              [] fn = "sstep" -> (IF x >= 2 THEN 8 ELSE 0)

RECURSIVE SumC(_, _)
SumC(comps, t) == IF comps = <<>> THEN 0
                  ELSE Head(comps).fac * F(Head(comps).fn, t - Head(comps).t0) + SumC(Tail(comps), t)

Times(o) == arr[o.ta]
Vals(o)  == IF o.cls = "Function" THEN [i \in 1..Len(arr[o.ta]) |-> SumC(o.comps, arr[o.ta][i])]
            ELSE arr[o.va]

Fit(V, n) == [i \in 1..n |-> IF i <= Len(V) THEN V[i] ELSE 0]     \* pad / truncate
Zeros(n)  == [i \in 1..n |-> 0]

(* linear interpolation, zero outside; exact when the guard holds *)
Seg(T, t) == CHOOSE i \in 1..Len(T) : T[i] <= t /\ (i = Len(T) \/ t < T[i+1])
Interp(T, V, t) == IF t < T[1] \/ t > T[Len(T)] THEN 0
                   ELSE LET i == Seg(T, t) IN
                        IF T[i] = t THEN V[i]
                        ELSE V[i] + ((V[i+1] - V[i]) * (t - T[i])) \div (T[i+1] - T[i])
InterpExact(T, V, t) == IF t < T[1] \/ t > T[Len(T)] THEN TRUE
                        ELSE LET i == Seg(T, t) IN
                             IF T[i] = t THEN TRUE
                             ELSE ((V[i+1] - V[i]) * (t - T[i])) % (T[i+1] - T[i]) = 0
   \* (IF, not \/ : inside an action TLC explores both disjuncts, so \/ does not guard partial terms)

Compatible(a, b) == a.vt = 0 \/ b.vt = 0 \/ a.vt = b.vt
Coerce(a, b) == IF a.vt = 0 THEN b.vt ELSE a.vt

NewId == Len(arr) + 1
Room(k) == Len(arr) + k <= MaxArr /\ Len(objs) < MaxObjs

(* allocate an object with fresh arrays; A is the array store to extend *)
MkSampled(A, cls, T, V, vt) ==
    [o |-> [cls |-> cls, ta |-> Len(A) + 1, va |-> Len(A) + 2, vt |-> vt, comps |-> <<>>],
     A |-> A \o <<T, V>>]
MkFunction(A, T, vt, comps) ==
    [o |-> [cls |-> "Function", ta |-> Len(A) + 1, va |-> 0, vt |-> vt, comps |-> comps],
     A |-> Append(A, T)]

Install(m, rec) == /\ objs' = Append(objs, m.o)
                   /\ arr' = m.A
                   /\ last' = rec @@ [res |-> "new", slot |-> Len(objs) + 1]

Init == /\ objs = <<>> /\ arr = <<>> /\ ext = <<>>
        /\ last = [op |-> "Init"]

(* ---- constructors: the caller passes arrays it keeps (ext) ---- *)
NewSignal(g, v, vt) ==
    /\ Room(4)
    /\ LET A1 == arr \o <<g, v>>                       \* caller's arrays
           m  == MkSampled(A1, "Signal", g, Fit(v, Len(g)), vt)
       IN /\ ext' = ext \o <<Len(arr) + 1, Len(arr) + 2>>
          /\ Install(m, [op |-> "NewSignal", g |-> g, v |-> v, vt |-> vt,
                         et |-> Len(arr) + 1, ev |-> Len(arr) + 2])

NewEmpty(g, vt) ==
    /\ Room(3)
    /\ LET A1 == Append(arr, g)
           m  == MkSampled(A1, "Empty", g, Zeros(Len(g)), vt)
       IN /\ ext' = Append(ext, Len(arr) + 1)
          /\ Install(m, [op |-> "NewEmpty", g |-> g, vt |-> vt, et |-> Len(arr) + 1])

NewFunction(g, fn, vt) ==
    /\ Room(2)
    /\ LET A1 == Append(arr, g)
           m  == MkFunction(A1, g, vt, <<[fn |-> fn, t0 |-> 0, fac |-> 1]>>)
       IN /\ ext' = Append(ext, Len(arr) + 1)
          /\ Install(m, [op |-> "NewFunction", g |-> g, fn |-> fn, vt |-> vt, et |-> Len(arr) + 1])

(* ---- copy ---- *)
CopyOf(A, o, vt) ==
    IF o.cls = "Function" THEN MkFunction(A, A[o.ta], vt, o.comps)
    ELSE IF o.cls = "Empty" THEN MkSampled(A, "Empty", A[o.ta], Zeros(Len(A[o.ta])), vt)
    ELSE MkSampled(A, "Signal", A[o.ta], A[o.va], vt)

Copy(i) ==
    /\ Room(2)
    /\ UNCHANGED ext
    /\ Install(CopyOf(arr, objs[i], objs[i].vt), [op |-> "Copy", a |-> i])

(* ---- addition ---- *)
Add(i, j) ==
    LET a == objs[i]  b == objs[j] IN
    /\ Room(2)
    /\ UNCHANGED ext
    /\ IF Times(a) # Times(b) \/ ~Compatible(a, b)
       THEN /\ UNCHANGED <<objs, arr>>
            /\ last' = [op |-> "Add", a |-> i, b |-> j, res |-> "raises"]
       ELSE LET vt == Coerce(a, b)
                m  == CASE a.cls = "Empty" -> CopyOf(arr, b, vt)
                        [] a.cls = "Signal" ->
                             MkSampled(arr, "Signal", Times(a),
                                       [k \in 1..Len(Times(a)) |-> Vals(a)[k] + Vals(b)[k]], vt)
                        [] a.cls = "Function" /\ b.cls = "Function" ->
                             MkFunction(arr, Times(a), vt, a.comps \o b.comps)
                        [] a.cls = "Function" /\ b.cls = "Empty" -> CopyOf(arr, a, vt)
                        [] a.cls = "Function" /\ b.cls = "Signal" ->
                             MkSampled(arr, "Signal", Times(a),
                                       [k \in 1..Len(Times(a)) |-> Vals(a)[k] + Vals(b)[k]], vt)
            IN Install(m, [op |-> "Add", a |-> i, b |-> j])

RAdd0(i) == /\ UNCHANGED <<objs, arr, ext>>
            /\ last' = [op |-> "RAdd0", a |-> i, res |-> "same"]

(* ---- scaling ---- *)
ScaleComps(comps, k) == [n \in 1..Len(comps) |-> [comps[n] EXCEPT !.fac = @ * k]]
DivComps(comps, k)   == [n \in 1..Len(comps) |-> [comps[n] EXCEPT !.fac = @ \div k]]
DivisibleVals(V, k)  == \A n \in 1..Len(V) : V[n] % k = 0
DivisibleComps(c, k) == \A n \in 1..Len(c) : c[n].fac % k = 0

Mul(i, k, refl) ==          \* s * k  /  k * s : a new object
    LET a == objs[i] IN
    /\ Room(2)
    /\ UNCHANGED ext
    /\ LET m == IF a.cls = "Function" THEN MkFunction(arr, Times(a), a.vt, ScaleComps(a.comps, k))
                ELSE MkSampled(arr, "Signal", Times(a), [n \in 1..Len(Vals(a)) |-> k * Vals(a)[n]], a.vt)
       IN Install(m, [op |-> "Mul", a |-> i, k |-> k, refl |-> refl])

Div(i, k) ==
    LET a == objs[i] IN
    /\ Room(2)
    /\ IF a.cls = "Function" THEN DivisibleComps(a.comps, k) ELSE DivisibleVals(Vals(a), k)
    /\ UNCHANGED ext
    /\ LET m == IF a.cls = "Function" THEN MkFunction(arr, Times(a), a.vt, DivComps(a.comps, k))
                ELSE MkSampled(arr, "Signal", Times(a), [n \in 1..Len(Vals(a)) |-> Vals(a)[n] \div k], a.vt)
       IN Install(m, [op |-> "Div", a |-> i, k |-> k])

IMul(i, k) ==
    LET a == objs[i] IN
    /\ UNCHANGED ext
    /\ IF a.cls = "Function"
       THEN /\ objs' = [objs EXCEPT ![i].comps = ScaleComps(@, k)] /\ UNCHANGED arr
       ELSE /\ arr' = [arr EXCEPT ![a.va] = [n \in 1..Len(@) |-> k * @[n]]] /\ UNCHANGED objs
    /\ last' = [op |-> "IMul", a |-> i, k |-> k, res |-> "inplace"]

IDiv(i, k) ==
    LET a == objs[i] IN
    /\ IF a.cls = "Function" THEN DivisibleComps(a.comps, k) ELSE DivisibleVals(Vals(a), k)
    /\ UNCHANGED ext
    /\ IF a.cls = "Function"
       THEN /\ objs' = [objs EXCEPT ![i].comps = DivComps(@, k)] /\ UNCHANGED arr
       ELSE /\ arr' = [arr EXCEPT ![a.va] = [n \in 1..Len(@) |-> @[n] \div k]] /\ UNCHANGED objs
    /\ last' = [op |-> "IDiv", a |-> i, k |-> k, res |-> "inplace"]

(* ---- shift: in place on the times array ---- *)
Shift(i, d) ==
    LET a == objs[i] IN
    /\ UNCHANGED ext
    /\ arr' = [arr EXCEPT ![a.ta] = [n \in 1..Len(@) |-> @[n] + d]]
    /\ objs' = IF a.cls = "Function"
               THEN [objs EXCEPT ![i].comps = [n \in 1..Len(@) |-> [@[n] EXCEPT !.t0 = @ + d]]]
               ELSE objs
    /\ last' = [op |-> "Shift", a |-> i, d |-> d, res |-> "inplace"]

(* ---- re-gridding: the caller passes a fresh array g it keeps ---- *)
WithTimes(i, g) ==
    LET a == objs[i]  e == Len(arr) + 1  A1 == Append(arr, g) IN
    /\ Room(3)
    /\ a.cls = "Signal" => \A n \in 1..Len(g) : InterpExact(Times(a), Vals(a), g[n])
    /\ ext' = Append(ext, e)
    /\ LET m == CASE a.cls = "Signal" ->
                       MkSampled(A1, "Signal", g, [n \in 1..Len(g) |-> Interp(Times(a), Vals(a), g[n])], a.vt)
                  [] a.cls = "Empty" -> MkSampled(A1, "Empty", g, Zeros(Len(g)), a.vt)
                  [] a.cls = "Function" ->
                       IF AliasWithTimes
                       THEN [o |-> [cls |-> "Function", ta |-> e, va |-> 0, vt |-> a.vt, comps |-> a.comps], A |-> A1]
                       ELSE MkFunction(A1, g, a.vt, a.comps)
       IN Install(m, [op |-> "WithTimes", a |-> i, g |-> g, et |-> e])

(* ---- the caller writes into arrays ---- *)
MutateExt(k, n, x) ==       \* into an array it passed as an argument earlier
    /\ n <= Len(arr[ext[k]])
    /\ arr[ext[k]][n] # x
    /\ arr' = [arr EXCEPT ![ext[k]][n] = x]
    /\ UNCHANGED <<objs, ext>>
    /\ last' = [op |-> "MutateExt", e |-> ext[k], n |-> n, x |-> x, res |-> "inplace"]

PokeValues(i, n, x) ==      \* into o.values of a sampled signal
    LET a == objs[i] IN
    /\ a.cls = "Signal"
    /\ n <= Len(arr[a.va])
    /\ arr[a.va][n] # x
    /\ arr' = [arr EXCEPT ![a.va][n] = x]
    /\ UNCHANGED <<objs, ext>>
    /\ last' = [op |-> "PokeValues", a |-> i, n |-> n, x |-> x, res |-> "inplace"]

Next ==
    \/ \E g \in Grids, v \in ValShapes, vt \in VTypes : NewSignal(g, v, vt)
    \/ \E g \in Grids, vt \in VTypes : NewEmpty(g, vt)
    \/ \E g \in Grids, fn \in Fns, vt \in VTypes : NewFunction(g, fn, vt)
    \/ \E i \in 1..Len(objs) : Copy(i)
    \/ \E i \in 1..Len(objs) : RAdd0(i)
    \/ \E i \in 1..Len(objs), j \in 1..Len(objs) : Add(i, j)
    \/ \E i \in 1..Len(objs), k \in Scales, r \in BOOLEAN : Mul(i, k, r)
    \/ \E i \in 1..Len(objs), k \in Scales : IMul(i, k)
    \/ \E i \in 1..Len(objs), k \in Divs : Div(i, k)
    \/ \E i \in 1..Len(objs), k \in Divs : IDiv(i, k)
    \/ \E i \in 1..Len(objs), d \in Shifts : Shift(i, d)
    \/ \E i \in 1..Len(objs), g \in Grids : WithTimes(i, g)
    \/ \E i \in 1..Len(objs), n \in 1..2, x \in Pokes : PokeValues(i, n, x)
    \/ \E k \in 1..Len(ext), x \in Pokes : MutateExt(k, 1, x)

Spec == Init /\ [][Next]_vars

(* ------------------------------ properties ------------------------------ *)
LenInv == \A i \in 1..Len(objs) : Len(Vals(objs[i])) = Len(Times(objs[i]))

(* all arrays held by distinct objects, and the caller's arrays, are pairwise distinct *)
Held == [i \in 1..Len(objs) |-> IF objs[i].cls = "Function" THEN {objs[i].ta} ELSE {objs[i].ta, objs[i].va}]
NoAlias == /\ \A i, j \in 1..Len(objs) : i # j => Held[i] \cap Held[j] = {}
           /\ \A i \in 1..Len(objs) : Held[i] \cap {ext[k] : k \in 1..Len(ext)} = {}
           /\ \A i \in 1..Len(objs) : objs[i].cls # "Function" => objs[i].ta # objs[i].va

(* an operation changes only the object it is applied to (action property) *)
Obs(i) == <<Times(objs[i]), Vals(objs[i]), objs[i].vt>>
ObsP(i) == <<arr'[objs'[i].ta],
             IF objs'[i].cls = "Function"
               THEN [n \in 1..Len(arr'[objs'[i].ta]) |-> SumC(objs'[i].comps, arr'[objs'[i].ta][n])]
               ELSE arr'[objs'[i].va],
             objs'[i].vt>>
Target == IF last'.op \in {"IMul", "IDiv", "Shift", "PokeValues"} THEN {last'.a} ELSE {}
Independent == [][\A i \in 1..Len(objs) : i \notin Target => ObsP(i) = Obs(i)]_vars

(* addition is pointwise and typed *)
AddPointwise ==
    last.op = "Add" /\ last.res = "new" =>
       LET a == objs[last.a]  b == objs[last.b]  r == objs[last.slot] IN
       /\ Times(r) = Times(a)
       /\ \A n \in 1..Len(Times(r)) : Vals(r)[n] = Vals(a)[n] + Vals(b)[n]
       /\ r.vt = (IF a.vt = 0 THEN b.vt ELSE a.vt)
AddRefused ==
    last.op = "Add" =>
       (last.res = "raises" <=> (Times(objs[last.a]) # Times(objs[last.b])
                                  \/ (objs[last.a].vt # 0 /\ objs[last.b].vt # 0 /\ objs[last.a].vt # objs[last.b].vt)))
EmptyNeutral ==
    last.op = "Add" /\ last.res = "new" /\ (objs[last.a].cls = "Empty" \/ objs[last.b].cls = "Empty") =>
       LET other == IF objs[last.a].cls = "Empty" THEN objs[last.b] ELSE objs[last.a] IN
       Vals(objs[last.slot]) = Vals(other)
ScaleAll ==
    last.op = "Mul" =>
       \A n \in 1..Len(Times(objs[last.slot])) : Vals(objs[last.slot])[n] = last.k * Vals(objs[last.a])[n]
FunctionReevaluates ==
    last.op = "WithTimes" /\ objs[last.a].cls = "Function" =>
       \A n \in 1..Len(last.g) : Vals(objs[last.slot])[n] = SumC(objs[last.a].comps, last.g[n])
=============================================================================
