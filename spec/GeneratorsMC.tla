---- MODULE GeneratorsMC ----
EXTENDS Generators
ThrowsAll == {<<TRUE>>, <<FALSE>>, <<FALSE, TRUE>>, <<FALSE, FALSE, FALSE, TRUE>>}
RatiosAll == {<<25, 50, 25>>, <<100, 0, 0>>, <<0, 50, 50>>, <<0, 0, 100>>, <<50, 50, 0>>}
PercentsAll == {0, 24, 25, 49, 50, 60, 61, 62, 74, 75, 77, 78, 79, 99}
====
