SPECIFICATION Spec
CONSTANTS
  MaxObjs = 3
  Grids <- GridsOne
  Fns = {"lin"}
  Scales = {2}
  Divs = {2}
  Shifts = {2}
  Delays = {2}
  Gains = {2}
  Buffers <- BuffersAlias
  Resamples = {4}
  AsIsSetBuffers = FALSE
INVARIANT NoStale
INVARIANT ReadIsEager
PROPERTY Independent
CHECK_DEADLOCK FALSE
