---------------------------- MODULE UniformImage ----------------------------
(* C18 (uniform half) / C02 (count table) -- ray paths in a uniform slab of ice [-D, 0].

   A case fixes the slab depth D, source and receiver depths z0, z1 (<= 0), the
   horizontal separation rho, the number of reflections r and the initial vertical
   direction d (+1 up, -1 down).  The walker moves the ray from boundary to boundary
   (action Bounce) and finally to the receiver (Arrive), accumulating the vertical
   distance travelled and the boundaries hit.  Three independent formulations of the
   total vertical travel must agree (invariants at the end of every behaviour):
     walked     what the walker accumulated;
     Formula    first leg + (r-1) slab thicknesses + last leg (the code's formula);
     Image      |z0 - image of z1| after mirroring the receiver r times.
   Only cases whose unfolded length sqrt(rho^2 + Z^2) is an integer are kept, so the
   expected path length, time of flight (n L / c), directions and reflection points are
   rational and the real tracer can be compared exactly.                             *)
EXTENDS Integers, Sequences, FiniteSets, TLC

CONSTANTS Ds, Zs, Rhos, MaxRefl, MaxL

VARIABLES cs, z, dir, nref, walked, pts, pc
vars == <<cs, z, dir, nref, walked, pts, pc>>

Abs(x) == IF x < 0 THEN -x ELSE x
Top == 0
Bot(c) == 0 - c.D
Bound(c, d) == IF d = 1 THEN Top ELSE Bot(c)

(* the code's formula (UniformRayTracer._reflected_path) *)
FinalDir(c) == IF c.r % 2 = 0 THEN c.d ELSE 0 - c.d
Formula(c) == IF c.r = 0 THEN Abs(c.z1 - c.z0)
              ELSE (IF c.d = 1 THEN Top - c.z0 ELSE c.z0 - Bot(c))
                   + (c.r - 1) * c.D
                   + (IF FinalDir(c) = 1 THEN c.z1 - Bot(c) ELSE Top - c.z1)

(* image method: mirror the receiver across the boundaries hit, last first *)
Mirror(x, b) == 2 * b - x
RECURSIVE ImageOf(_, _, _)
ImageOf(c, x, bs) == IF bs = <<>> THEN x ELSE ImageOf(c, Mirror(x, bs[Len(bs)]), SubSeq(bs, 1, Len(bs) - 1))

IsSquare(n) == \E L \in 0..MaxL : L * L = n
Root(n) == CHOOSE L \in 0..MaxL : L * L = n

Cases == {c \in [D : Ds, z0 : Zs, z1 : Zs, rho : Rhos, r : 0..MaxRefl, d : {1, -1}] :
            /\ c.z0 >= 0 - c.D /\ c.z1 >= 0 - c.D
            /\ c.r = 0 => c.d = (IF c.z1 >= c.z0 THEN 1 ELSE -1)
            /\ c.rho + Formula(c) > 0
            /\ IsSquare(c.rho * c.rho + Formula(c) * Formula(c))}

Init == /\ cs \in Cases
        /\ z = cs.z0 /\ dir = cs.d /\ nref = 0 /\ walked = 0 /\ pts = <<>> /\ pc = "go"

Bounce == /\ pc = "go" /\ nref < cs.r
          /\ LET b == Bound(cs, dir) IN
             /\ walked' = walked + Abs(b - z)
             /\ z' = b /\ pts' = Append(pts, b)
          /\ dir' = 0 - dir /\ nref' = nref + 1
          /\ UNCHANGED <<cs, pc>>

Arrive == /\ pc = "go" /\ nref = cs.r
          /\ walked' = walked + Abs(cs.z1 - z)
          /\ z' = cs.z1 /\ pc' = "done"
          /\ UNCHANGED <<cs, dir, nref, pts>>

Next == Bounce \/ Arrive
Spec == Init /\ [][Next]_vars

Done == pc = "done"
WalkIsFormula == Done => walked = Formula(cs)
WalkIsImage   == Done => walked = Abs(ImageOf(cs, cs.z1, pts) - cs.z0)
FinalDirection == Done => dir = FinalDir(cs)
InsideSlab    == z <= Top /\ z >= Bot(cs)
PointsOnBoundaries == \A n \in 1..Len(pts) : pts[n] \in {Top, Bot(cs)} /\ (n > 1 => pts[n] # pts[n - 1])
(* number of solutions the tracer must report (C02): direct + every (r, d) the boundary indices allow *)
Allowed(r, d, hasAbove, hasBelow) == /\ (r > 1 \/ d = 1) => hasAbove
                                     /\ (r > 1 \/ d = -1) => hasBelow
Count(maxr, hasAbove, hasBelow) == 1 + Cardinality({rd \in (1..maxr) \X {1, -1} : Allowed(rd[1], rd[2], hasAbove, hasBelow)})
=============================================================================
