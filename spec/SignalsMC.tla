---- MODULE SignalsMC ----
EXTENDS Signals
\* constant definitions for the configurations
GridsSmall  == {<<0, 2, 4>>, <<0, 1, 4>>}
GridsSim    == {<<0, 2, 4>>, <<1, 2, 3>>, <<0, 1, 4>>, <<0, 3, 4>>, <<0, 1, 2, 4>>, <<-6, -2, 2, 6>>, <<5>>, <<3, 4>>, <<2000000, 2000002, 2000004>>,
                <<-4, -2, 0, 2, 4, 6>>, <<0, 1, 2, 3, 4>>,
                <<4, 6, 8>>, <<-4, -2, 0>>, <<5, 7>>, <<3, 5>>}       \* grids touching <<0, 2, 4>> / <<5>> at exactly one end sample
GridsEdge   == {<<0, 2, 4>>, <<4, 6, 8>>, <<-4, -2, 0>>, <<5>>, <<5, 7>>, <<3, 5>>, <<1, 2, 3>>, <<-2, 0, 2, 4, 6>>}
GridsAdd    == {<<0, 2, 4>>, <<1, 2, 3>>, <<0, 1, 4>>, <<2, 4, 6>>}
ValsSmall   == {<<16, 32, -16>>, <<48>>}
ValsSim     == {<<16, 32, -16>>, <<48>>, <<64, 0, 32, 16, 80, -48, 96>>, <<>>, <<0, 0, 0, 0>>, <<32, 64>>}
FnsSmall    == {"lin", "step"}
FnsSim      == {"lin", "step", "tri", "sstep"}
ScalesAll   == {2, -1, 3}
ShiftsAll   == {2, -3}
ShiftsSim   == {2, -3, 1, 1000000}
PokesAll    == {8, -24}
LevelBound  == TLCGet("level") <= 4
LevelBoundT == TLCGet("level") <= 5
LevelBoundG == TLCGet("level") <= 3
====
