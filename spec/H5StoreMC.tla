---- MODULE H5StoreMC ----
EXTENDS H5Store
AllKinds == {"particles", "triggers", "antenna_triggers", "rays", "noise", "waveforms"}
\* option families -------------------------------------------------------------
FamAll      == [write |-> AllKinds, trigOnly |-> {}]                                   \* everything, always
FamDefault  == [write |-> {"particles", "triggers", "rays"}, trigOnly |-> {"rays", "noise", "waveforms"}]  \* defaults (require_trigger=True)
FamAllTrig  == [write |-> AllKinds, trigOnly |-> {"rays", "noise", "waveforms"}]       \* all tables, require_trigger=True
FamAntTrig  == [write |-> AllKinds, trigOnly |-> {"antenna_triggers", "waveforms"}]    \* require_trigger=['antenna_triggers','waveforms']
FamPartTrig == [write |-> AllKinds, trigOnly |-> {"particles", "triggers", "rays"}]
FamNoTrigT  == [write |-> AllKinds \ {"triggers", "antenna_triggers"}, trigOnly |-> {"noise"}]
FamMinimal  == [write |-> {"particles"}, trigOnly |-> {}]
FamWave     == [write |-> {"particles", "triggers", "waveforms"}, trigOnly |-> AllKinds]
FamiliesC12   == {FamAll, FamPartTrig}
FamiliesSmall == {FamAll, FamAllTrig, FamAntTrig, FamPartTrig}
FamiliesAll   == {FamAll, FamDefault, FamAllTrig, FamAntTrig, FamPartTrig, FamNoTrigT, FamMinimal, FamWave}
\* every option combination that records particles (2^5 write sets x 2^6 trig-only sets, antenna_triggers => triggers)
FamiliesFull  == {f \in [write : SUBSET AllKinds, trigOnly : SUBSET AllKinds] :
                      /\ "particles" \in f.write
                      /\ "antenna_triggers" \in f.write => "triggers" \in f.write
                      /\ f.trigOnly \subseteq f.write}       \* trig-only flags of unwritten kinds are unobservable except the None pre-check
\* add parameterisations ------------------------------------------------------------
Good(np, trig, form, nw, nr) == [np |-> np, trig |-> trig, form |-> form, nw |-> nw, nr |-> nr, rays |-> "ok", pbad |-> FALSE]
GoodSmall == {Good(np, trig, form, x[1], x[2]) : np \in {1, 2}, trig \in BOOLEAN, form \in {"bool", "dictl"},
                                                  x \in {<<0, 0>>, <<1, 1>>, <<2, 1>>}}
BadSmall  == {[np |-> 1, trig |-> TRUE, form |-> "bool", nw |-> 1, nr |-> 1, rays |-> "badshape", pbad |-> FALSE],
              [np |-> 2, trig |-> TRUE, form |-> "bool", nw |-> 1, nr |-> 1, rays |-> "ok", pbad |-> TRUE],
              [np |-> 1, trig |-> TRUE, form |-> "noglobal", nw |-> 1, nr |-> 2, rays |-> "ok", pbad |-> FALSE],
              [np |-> 1, trig |-> TRUE, form |-> "dictshort", nw |-> 2, nr |-> 1, rays |-> "ok", pbad |-> FALSE]}
ParamsSmall == GoodSmall \cup BadSmall
ParamsAll == {[np |-> np, trig |-> trig, form |-> form, nw |-> nw, nr |-> nr, rays |-> rays, pbad |-> pbad] :
                 np \in {1, 2, 3}, trig \in BOOLEAN,
                 form \in {"bool", "dict", "dictx", "dictl", "dictshort", "badtype", "noglobal", "none"},
                 nw \in 0..3, nr \in 0..3, rays \in {"ok", "none", "badshape"}, pbad \in BOOLEAN}
ParamsMid == {Good(np, trig, form, x[1], x[2]) : np \in {1, 2}, trig \in BOOLEAN, form \in {"bool", "dictx", "dictl"},
                                                  x \in {<<0, 0>>, <<1, 1>>, <<2, 1>>, <<1, 3>>, <<3, 2>>}} \cup BadSmall
ParamsTiny == {Good(1, TRUE, "bool", 1, 1), Good(2, FALSE, "dictx", 2, 0), Good(1, TRUE, "dictl", 0, 2),
               [np |-> 1, trig |-> TRUE, form |-> "bool", nw |-> 1, nr |-> 1, rays |-> "badshape", pbad |-> FALSE],
               [np |-> 2, trig |-> FALSE, form |-> "bool", nw |-> 1, nr |-> 1, rays |-> "ok", pbad |-> TRUE]}
====
