---------------------------- MODULE TraceH5Store ----------------------------
(* Trace validation for H5Store.tla (C11): what real HDF5Writer objects did -- recorded from outside while
   the repository's own test suite and the harness' workloads run -- must be a behaviour of the writer model,
   and the index table found in the closed file must be the one the model computed.

   A trace is the life of one file: Open (fresh file or append session, with the writer's options),
   SetDetector, Add (abstract parameters as in H5Store.AddParams, outcome ok / raises), Close,
   Snapshot (event indices read back with h5py).  Add is accepted only if the model's RunAdd agrees
   on acceptance vs rejection; Snapshot only if every entry with data addresses exactly the rows the
   model says (entries without data need only have length 0 -- their start index is representation).  *)
EXTENDS H5Store, Json, IOUtils, TLCExt

Traces == JsonDeserialize(IOEnv.TRACE_FILE)

VARIABLES tid, l
tvars == <<vars, tid, l>>

SetOfSeq(s) == {s[i] : i \in 1..Len(s)}
OptOf(o) == [write |-> SetOfSeq(o.write), trigOnly |-> SetOfSeq(o.trigOnly)]
ParamOf(e) == [np |-> e.np, trig |-> e.trig, form |-> e.form, nw |-> e.nw, nr |-> e.nr, rays |-> e.rays, pbad |-> e.pbad]

Events == Traces[tid].events
Ev == Events[l]

TraceInit == \E t \in 1..Len(Traces) :
                /\ tid = t /\ l = 1
                /\ c = OptOf(Traces[t].events[1].options)
                /\ F = EmptyFile
                /\ w = [open |-> FALSE, hasDet |-> FALSE, n |-> 0]
                /\ acc = <<>> /\ nadd = 0 /\ nfail = 0
                /\ last = [op |-> "Init"]
                /\ TLCSet(t, 0)

SnapshotAgrees(e) ==
    /\ e.nev = NEv(F)
    /\ \A ev \in 1..NEv(F) : \A t \in TableSet :
          LET cols == {j \in 1..Len(e.tables) : e.tables[j] = t} IN
          IF F.idx[ev][t][2] > 0
          THEN \E j \in cols : e.idx[ev][j][1] = F.idx[ev][t][1] /\ e.idx[ev][j][2] = F.idx[ev][t][2]
          ELSE \A j \in cols : e.idx[ev][j][2] = 0

Matches ==
    \/ /\ Ev.ev = "Open" /\ ~w.open
       /\ c' = OptOf(Ev.options)
       /\ F' = IF Ev.fresh THEN EmptyFile
               ELSE [F EXCEPT !.ctr = [t \in TableSet |-> Len(F.rows[t])], !.ev = Len(F.idx)]
       /\ acc' = IF Ev.fresh THEN <<>> ELSE acc
       /\ w' = [open |-> TRUE, hasDet |-> FALSE, n |-> w.n + 1]
       /\ last' = [op |-> "Open"]
       /\ UNCHANGED <<nadd, nfail>>
    \/ /\ Ev.ev = "SetDetector" /\ w.open
       /\ w' = [w EXCEPT !.hasDet = TRUE]
       /\ last' = [op |-> "SetDetector"]
       /\ UNCHANGED <<c, F, acc, nadd, nfail>>
    \/ /\ Ev.ev = "Add" /\ w.open
       /\ LET p == ParamOf(Ev)  r == RunAdd(c, w.hasDet, nadd + 1, p, F) IN
          /\ r.err = (Ev.res = "raises")
          /\ F' = r.G
          /\ acc' = IF r.err THEN acc ELSE Append(acc, [k |-> nadd + 1, p |-> p])
          /\ nadd' = nadd + 1 /\ nfail' = IF r.err THEN nfail + 1 ELSE nfail
          /\ last' = [op |-> "Add", k |-> nadd + 1, p |-> p, res |-> Ev.res]
       /\ UNCHANGED <<c, w>>
    \/ /\ Ev.ev = "Close" /\ w.open
       /\ w' = [w EXCEPT !.open = FALSE]
       /\ last' = [op |-> "Close"]
       /\ UNCHANGED <<c, F, acc, nadd, nfail>>
    \/ /\ Ev.ev = "Snapshot" /\ ~w.open
       /\ SnapshotAgrees(Ev)
       /\ last' = [op |-> "Snapshot"]
       /\ UNCHANGED <<c, F, w, acc, nadd, nfail>>

Step == /\ l <= Len(Events) /\ Matches /\ l' = l + 1 /\ UNCHANGED tid
TraceSpec == TraceInit /\ [][Step]_tvars

Track == TLCSet(tid, IF TLCGet(tid) > l - 1 THEN TLCGet(tid) ELSE l - 1)
Verdicts == \A t \in 1..Len(Traces) : PrintT(<<"VERDICT", t, TLCGet(t), Len(Traces[t].events)>>)
=============================================================================
