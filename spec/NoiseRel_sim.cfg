SPECIFICATION Spec
CONSTANTS
  Impls = {"full", "fft"}
  Bands = {1, 2, 3, 4, 5, 6}
  AmpSpecs = {"const", "func", "scalarfunc", "rayleigh"}
  Uniqs = {1, 2, 3, 25}
  Lengths = {16, 33}
  RmsModes = {"rms", "TR"}
  Windows <- WindowsMC
  Shifts <- ShiftsMC
  MaxObjs = 4
  MaxLevel = 12
CONSTRAINT LevelBound
CHECK_DEADLOCK FALSE
