SPECIFICATION Spec
CONSTANTS
  Attrs <- TracerAttrs
  Props = {"solutions", "scalars"}
  Vals <- ValsG
  Static <- TracerAttrs
  IdentitySkip = FALSE
CONSTRAINT LevelBoundG
INVARIANT NoStale
INVARIANT ReadIsFresh
CHECK_DEADLOCK FALSE
