INIT RInit
NEXT RNext
CONSTANTS
  Bases <- BasesAll
  Shifts <- ShiftsAll
  Stretches <- StretchAll
  MaxLevel = 7
CONSTRAINT LevelBound
INVARIANT RConsistent
CHECK_DEADLOCK FALSE
