SPECIFICATION Spec
CONSTANTS
  Ns = {3, 4}
  SigVals <- SigValsAll
  Kernels <- KernelsSafe
  Bs <- BsAll
  Variants <- VariantsOne
  K = 2
  MaxFilters = 2
INVARIANT Linear
INVARIANT NoWrap
INVARIANT Unit
INVARIANT Passive
INVARIANT PureDelayShifts
CHECK_DEADLOCK FALSE
