------------------------------- MODULE LazyObj -------------------------------
(* C06 (ray tracers and ray paths) -- objects built on LazyMutableClass.

   An object has defining attributes Attrs (each holding a small integer that the driver decodes
   into a point, an ice model, an integration step ...) and lazily evaluated properties Props.
   Reading a property caches it; the cache of the code is cleared by __setattr__ of any attribute
   in Static (LazyMutableClass._static_attrs) -- plain assignment and augmented assignment
   (`t.to_point += d`: in-place change followed by re-binding the same object) both go through
   __setattr__.  NoStale is the property: a cached value was computed from the current attributes.
   Static = Attrs is the shipped behaviour; a smaller Static (or IdentitySkip = TRUE, an "optimisation"
   that skips clearing when the very same object is re-bound) reproduces stale reads.            *)
EXTENDS Integers, FiniteSets, TLC

CONSTANTS Attrs, Props, Vals, Static, IdentitySkip

VARIABLES attrs, cache, last
vars == <<attrs, cache, last>>
None == [a \in Attrs |-> -1]          \* "nothing cached" (same shape as a snapshot: TLC cannot compare a string with a function)

Init == /\ attrs \in [Attrs -> {0}]
        /\ cache = [p \in Props |-> None]
        /\ last = [op |-> "Init"]

Clear(a, sameObject) == IF a \in Static /\ ~(IdentitySkip /\ sameObject) THEN [p \in Props |-> None] ELSE cache

Assign(a, v) == /\ attrs[a] # v
                /\ attrs' = [attrs EXCEPT ![a] = v]
                /\ cache' = Clear(a, FALSE)
                /\ last' = [op |-> "Assign", a |-> a, v |-> v]

AugAssign(a) == /\ a \in {"from_point", "to_point"}
                /\ attrs[a] + 10 \in Vals
                /\ attrs' = [attrs EXCEPT ![a] = @ + 10]
                /\ cache' = Clear(a, TRUE)
                /\ last' = [op |-> "AugAssign", a |-> a]

Read(p) == /\ cache' = [cache EXCEPT ![p] = IF @ = None THEN attrs ELSE @]
           /\ last' = [op |-> "Read", p |-> p, computedFrom |-> (IF cache[p] = None THEN attrs ELSE cache[p]), current |-> attrs]
           /\ UNCHANGED attrs

Next == \/ \E a \in Attrs, v \in Vals : Assign(a, v)
        \/ \E a \in Attrs : AugAssign(a)
        \/ \E p \in Props : Read(p)
Spec == Init /\ [][Next]_vars

NoStale == \A p \in Props : cache[p] # None => cache[p] = attrs
ReadIsFresh == last.op = "Read" => last.computedFrom = last.current
=============================================================================
