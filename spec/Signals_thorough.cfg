SPECIFICATION Spec
CONSTANTS
  MaxObjs = 3
  MaxArr = 12
  Grids <- GridsSmall
  ValShapes <- ValsSmall
  VTypes = {0, 1, 2}
  Fns <- FnsSmall
  Scales <- ScalesAll
  Divs = {2}
  Shifts <- ShiftsAll
  Pokes <- PokesAll
  AliasWithTimes = FALSE
CONSTRAINT LevelBoundT
INVARIANT LenInv
INVARIANT NoAlias
INVARIANT AddPointwise
INVARIANT AddRefused
INVARIANT EmptyNeutral
INVARIANT ScaleAll
INVARIANT FunctionReevaluates
PROPERTY Independent
CHECK_DEADLOCK FALSE
