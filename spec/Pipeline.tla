------------------------------- MODULE Pipeline -------------------------------
(* End-to-end composition: generator -> kernel -> antennas -> writer -> file -> reader -> file
   generator -> second kernel.  Not tied to a single listed property; it extends the specification
   over the seams between C10 (kernel), C09 (antennas), C11/C12 (file, reader, file generator) and C13
   (throw counting).

   A run is a script of events; each event is a sequence of particle kinds
     "in"    vertex inside the ice: every antenna gets Sols ray solutions
     "out"   vertex outside the ice: no ray solution
     "light" weight below the cut: skipped by the kernel
   and the number of throws the generator needed for it.  The simulation loop either clears the
   antennas before an event or forgets to (Clear is a separate action, as in user code).  The file
   records per event the particles, the ray rows (from the kernel's own lists) and the waveform rows
   (from what the antennas hold).  The file is then read back and replayed through a FileGenerator
   into a second kernel.                                                                       *)
EXTENDS Integers, Sequences, FiniteSets, TLC

CONSTANTS Scripts,     \* set of scripts: Seq of [parts |-> Seq(kind), thrown |-> Nat]
          NAnt, Sols

VARIABLES script, phase, k, held, cleared, file, count, replayed, last
vars == <<script, phase, k, held, cleared, file, count, replayed, last>>

RECURSIVE Rx(_)        \* signals one antenna receives from the particles of an event
Rx(parts) == IF parts = <<>> THEN 0 ELSE (IF Head(parts) = "in" THEN Sols ELSE 0) + Rx(Tail(parts))
RECURSIVE SumThrown(_)
SumThrown(s) == IF s = <<>> THEN 0 ELSE Head(s).thrown + SumThrown(Tail(s))

Init == /\ script \in Scripts
        /\ phase = "sim" /\ k = 0 /\ held = 0 /\ cleared = TRUE
        /\ file = <<>> /\ count = 0 /\ replayed = <<>>
        /\ last = [op |-> "Init"]

Clear == /\ phase = "sim" /\ ~cleared
         /\ held' = 0 /\ cleared' = TRUE
         /\ last' = [op |-> "Clear"]
         /\ UNCHANGED <<script, phase, k, file, count, replayed>>

(* kernel.event() with a writer: every antenna receives the same number of signals in this geometry *)
Event == /\ phase = "sim" /\ k < Len(script)
         /\ LET e == script[k + 1]  rx == Rx(e.parts) IN
            /\ held' = held + rx
            /\ count' = count + e.thrown
            /\ file' = Append(file, [np |-> Len(e.parts), nr |-> rx, nw |-> held + rx, thrown |-> e.thrown,
                                      trig |-> (held + rx > 0), clean |-> cleared])
            /\ last' = [op |-> "Event", k |-> k + 1, rx |-> rx, held |-> held + rx]
         /\ k' = k + 1 /\ cleared' = FALSE
         /\ UNCHANGED <<script, phase, replayed>>

Close == /\ phase = "sim" /\ k = Len(script) /\ k > 0
         /\ phase' = "read" /\ k' = 0
         /\ last' = [op |-> "Close", events |-> Len(file), total_thrown |-> count]
         /\ UNCHANGED <<script, held, cleared, file, count, replayed>>

(* the reader delivers event k of the file *)
ReadEvent == /\ phase = "read" /\ k < Len(file)
             /\ k' = k + 1
             /\ last' = [op |-> "ReadEvent", k |-> k + 1, rec |-> file[k + 1]]
             /\ UNCHANGED <<script, phase, held, cleared, file, count, replayed>>
StartResim == /\ phase = "read" /\ k = Len(file)
              /\ phase' = "resim" /\ k' = 0 /\ held' = 0
              /\ last' = [op |-> "StartResim"]
              /\ UNCHANGED <<script, cleared, file, count, replayed>>

(* second simulation from the file: antennas cleared before every event *)
Resim == /\ phase = "resim" /\ k < Len(file)
         /\ LET e == script[k + 1] IN
            /\ replayed' = Append(replayed, [np |-> Len(e.parts), rx |-> Rx(e.parts)])
            /\ last' = [op |-> "Resim", k |-> k + 1, np |-> Len(e.parts), rx |-> Rx(e.parts)]
         /\ k' = k + 1
         /\ UNCHANGED <<script, phase, held, cleared, file, count>>
Finish == /\ phase = "resim" /\ k = Len(file)
          /\ phase' = "done"
          /\ last' = [op |-> "Finish", generator_count |-> count]
          /\ UNCHANGED <<script, k, held, cleared, file, count, replayed>>

Next == Clear \/ Event \/ Close \/ ReadEvent \/ StartResim \/ Resim \/ Finish
Spec == Init /\ [][Next]_vars

(* ------------------------------ properties ------------------------------ *)
EveryEventWritten == phase # "sim" => Len(file) = Len(script)
ParticlesAreTheGenerators == \A i \in 1..Len(file) : file[i].np = Len(script[i].parts)
ThrownAddsUp == phase # "sim" => SumThrown(file) = count /\ count = SumThrown(script)
(* rays come from the kernel, waveforms from the antennas: they line up when the loop cleared the antennas *)
WaveformsMatchRays == \A i \in 1..Len(file) : file[i].clean => file[i].nw = file[i].nr
StaleSignalsShowUp == \A i \in 1..Len(file) : file[i].nw >= file[i].nr
ResimulationSeesTheSameStream == phase = "done" => \A i \in 1..Len(file) : replayed[i].np = file[i].np /\ replayed[i].rx = file[i].nr
=============================================================================
