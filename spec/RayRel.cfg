INIT RInit
NEXT RNext
CONSTANTS
  Bases <- BasesAll
  Shifts <- ShiftsAll
  MaxLevel = 5
CONSTRAINT LevelBound
INVARIANT RConsistent
CHECK_DEADLOCK FALSE
