SPECIFICATION Spec
CONSTANTS
  Kind = "antenna"
  Noisy = TRUE
  Sigs <- SigsSmall
  Windows <- WinSmall
  Thr = 24
  MaxSigs = 2
CONSTRAINT LevelBoundT
INVARIANT CachesOrdered
INVARIANT OnePerSignal
INVARIANT TriggeredAreExactlyThose
INVARIANT FullIsSuperposition
INVARIANT ClearIsInit
PROPERTY StaleOnlyByD9
PROPERTY NoiseMasterUntilReset
CHECK_DEADLOCK FALSE
