------------------------------ MODULE ExitPoints ------------------------------
(* C13 (geometric core) -- entry and exit points of a particle's line of flight through the
   generation volume: a box [-X, X] x [-Y, Y] x [-Z, 0] or a cylinder of radius R and depth Z.

   Everything is exact rational arithmetic on a lattice: a case is [shape, v, d] with integer
   vertex v strictly inside the volume and integer direction d.  Points on the line are
   v + t d; a time t is a fraction <<num, den>> (den > 0).  The box uses the slab method
   (latest entry over the axes, earliest exit); the cylinder intersects the line with the
   circle (kept only when the discriminant is a perfect square) and with the two caps.
   Model theorems: both points lie on the boundary and inside the closed volume, the entry
   time is negative and the exit time positive (vertex strictly between).                  *)
EXTENDS Integers, Sequences, FiniteSets, TLC

CONSTANTS X, Y, Z, R, Coords, Dirs, MaxRoot

VARIABLES cs, last
vars == <<cs, last>>

Abs(x) == IF x < 0 THEN -x ELSE x
(* fractions *)
Lt(a, b) == a[1] * b[2] < b[1] * a[2]
Le(a, b) == a[1] * b[2] <= b[1] * a[2]
MaxF(S) == CHOOSE a \in S : \A b \in S : Le(b, a)
MinF(S) == CHOOSE a \in S : \A b \in S : Le(a, b)
Norm(n, d) == IF d < 0 THEN <<0 - n, 0 - d>> ELSE <<n, d>>
(* coordinate i of the point at time t, as a fraction over t[2] *)
At(v, d, t, i) == <<v[i] * t[2] + d[i] * t[1], t[2]>>

IsSquare(n) == n >= 0 /\ \E r \in 0..MaxRoot : r * r = n
Root(n) == CHOOSE r \in 0..MaxRoot : r * r = n

(* ---- box: per axis the times at which the line crosses the two faces ---- *)
Lo(i) == CASE i = 1 -> 0 - X [] i = 2 -> 0 - Y [] i = 3 -> 0 - Z
Hi(i) == CASE i = 1 -> X [] i = 2 -> Y [] i = 3 -> 0
AxisEnter(v, d, i) == IF d[i] > 0 THEN Norm(Lo(i) - v[i], d[i]) ELSE Norm(Hi(i) - v[i], d[i])
AxisExit(v, d, i)  == IF d[i] > 0 THEN Norm(Hi(i) - v[i], d[i]) ELSE Norm(Lo(i) - v[i], d[i])
Moving(d) == {i \in 1..3 : d[i] # 0}
BoxEnter(v, d) == MaxF({AxisEnter(v, d, i) : i \in Moving(d)})
BoxExit(v, d)  == MinF({AxisExit(v, d, i) : i \in Moving(d)})

(* ---- cylinder: circle x^2 + y^2 = R^2 and the caps z = 0, z = -Z ---- *)
A(d) == d[1] * d[1] + d[2] * d[2]
B(v, d) == v[1] * d[1] + v[2] * d[2]
C(v) == v[1] * v[1] + v[2] * v[2] - R * R
Disc(v, d) == B(v, d) * B(v, d) - A(d) * C(v)
CylTimes(v, d, enter) ==
    LET side == IF A(d) = 0 THEN {}
                ELSE {Norm((0 - B(v, d)) + (IF enter THEN 0 - Root(Disc(v, d)) ELSE Root(Disc(v, d))), A(d))}
        cap  == IF d[3] = 0 THEN {}
                ELSE {IF enter THEN AxisEnter(v, d, 3) ELSE AxisExit(v, d, 3)}
    IN side \cup cap
CylEnter(v, d) == MaxF(CylTimes(v, d, TRUE))
CylExit(v, d)  == MinF(CylTimes(v, d, FALSE))

InsideBox(v) == \A i \in 1..3 : v[i] > Lo(i) /\ v[i] < Hi(i)
InsideCyl(v) == v[1] * v[1] + v[2] * v[2] < R * R /\ v[3] > 0 - Z /\ v[3] < 0

Cases == {c \in [shape : {"box", "cyl"}, v : Coords \X Coords \X Coords, d : Dirs] :
            /\ c.shape = "box" => InsideBox(c.v)
            /\ c.shape = "cyl" => InsideCyl(c.v) /\ (A(c.d) # 0 => IsSquare(Disc(c.v, c.d)))}

Enter(c) == IF c.shape = "box" THEN BoxEnter(c.v, c.d) ELSE CylEnter(c.v, c.d)
Exit(c)  == IF c.shape = "box" THEN BoxExit(c.v, c.d) ELSE CylExit(c.v, c.d)

Init == cs \in Cases /\ last = [op |-> "Init"]
Solve == /\ last.op = "Init"
         /\ last' = [op |-> "Solve", enter |-> Enter(cs), exit |-> Exit(cs)]
         /\ UNCHANGED cs
Next == Solve
Spec == Init /\ [][Next]_vars

(* ------------------------------ properties ------------------------------ *)
Zero == <<0, 1>>
Solved == last.op = "Solve"
VertexBetween == Solved => Lt(last.enter, Zero) /\ Lt(Zero, last.exit)
(* a point (fractions over den) inside the closed volume, and on its boundary *)
CoordLe(f, k) == f[1] <= k * f[2]
CoordGe(f, k) == f[1] >= k * f[2]
CoordEq(f, k) == f[1] = k * f[2]
InClosedBox(t) == \A i \in 1..3 : CoordGe(At(cs.v, cs.d, t, i), Lo(i)) /\ CoordLe(At(cs.v, cs.d, t, i), Hi(i))
OnBoxFace(t) == \E i \in 1..3 : CoordEq(At(cs.v, cs.d, t, i), Lo(i)) \/ CoordEq(At(cs.v, cs.d, t, i), Hi(i))
Rad2(t) == LET x == At(cs.v, cs.d, t, 1)  y == At(cs.v, cs.d, t, 2) IN <<x[1] * x[1] + y[1] * y[1], t[2] * t[2]>>
InClosedCyl(t) == /\ CoordLe(Rad2(t), R * R)
                  /\ CoordGe(At(cs.v, cs.d, t, 3), 0 - Z) /\ CoordLe(At(cs.v, cs.d, t, 3), 0)
OnCylSurface(t) == \/ CoordEq(Rad2(t), R * R)
                   \/ CoordEq(At(cs.v, cs.d, t, 3), 0 - Z) \/ CoordEq(At(cs.v, cs.d, t, 3), 0)
OnBoundary == Solved => IF cs.shape = "box"
                        THEN InClosedBox(last.enter) /\ OnBoxFace(last.enter) /\ InClosedBox(last.exit) /\ OnBoxFace(last.exit)
                        ELSE InClosedCyl(last.enter) /\ OnCylSurface(last.enter) /\ InClosedCyl(last.exit) /\ OnCylSurface(last.exit)
=============================================================================
