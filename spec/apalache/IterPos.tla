------------------------------- MODULE IterPos -------------------------------
(* C12 (bonus, unbounded) -- the position arithmetic of EventIterator.__next__ (pyrex/io.py) for files, ranges
   and chunk sizes of ANY size: an inductive invariant checked with Apalache.

   The iterator keeps cnt (_iter_counter), ss / se (_slice_start_event / _slice_end_event); each call computes
   evn = cnt * Step + ss, stops at Stop, and reloads a chunk [evn, min(evn + SR, N)) stepping by Step when evn has
   passed the end of the loaded chunk.  Claim: the k-th event delivered is Start + (k-1) * Step, lies below Stop,
   and is inside the loaded chunk at list position cnt (so `self._data[key][self._iter_counter]` is that event).
   The invariant is inductive: Init => IndInv and IndInv /\ Next => IndInv'.  Step is fixed per run (the
   product cnt * Step would otherwise be non-linear); N, Start, Stop, SR stay symbolic and unbounded.          *)
EXTENDS Integers

CONSTANTS
    \* @type: Int;
    N,
    \* @type: Int;
    Start,
    \* @type: Int;
    Stop,
    \* @type: Int;
    Step,
    \* @type: Int;
    SR

VARIABLES
    \* @type: Int;
    cnt,
    \* @type: Int;
    ss,
    \* @type: Int;
    se,
    \* @type: Int;
    k,
    \* @type: Int;
    evn,
    \* @type: Bool;
    done

Min(a, b) == IF a < b THEN a ELSE b

Params(st) == /\ N \in Int /\ Start \in Int /\ Stop \in Int /\ SR \in Int /\ Step \in Int
              /\ N >= 1 /\ Start >= 0 /\ Start < N /\ Stop >= 1 /\ Stop <= N /\ SR >= 1 /\ Step = st
CInitAny == /\ N \in Int /\ Start \in Int /\ Stop \in Int /\ SR \in Int /\ Step \in Int
            /\ N >= 1 /\ Start >= 0 /\ Start < N /\ Stop >= 1 /\ Stop <= N /\ SR >= 1 /\ Step >= 1
CInit1 == Params(1)
CInit2 == Params(2)
CInit3 == Params(3)
CInit7 == Params(7)

Init == /\ cnt = -1 /\ ss = Start /\ se = Start /\ k = 0 /\ evn = Start - Step /\ done = FALSE

Next == /\ ~done
        /\ LET c1 == cnt + 1
               e  == c1 * Step + ss
           IN IF e >= Stop
              THEN /\ done' = TRUE /\ UNCHANGED <<cnt, ss, se, k, evn>>
              ELSE /\ done' = FALSE /\ k' = k + 1 /\ evn' = e
                   /\ IF e >= se
                      THEN /\ cnt' = 0 /\ ss' = e /\ se' = Min(e + SR, N)
                      ELSE /\ cnt' = c1 /\ UNCHANGED <<ss, se>>

(* what the property needs *)
Delivered == k >= 1 => /\ evn = Start + (k - 1) * Step
                       /\ evn < Stop
                       /\ cnt >= 0 /\ evn = ss + cnt * Step /\ evn < se /\ se <= N   \* inside the loaded chunk at position cnt

IndInv == /\ k >= 0 /\ cnt >= -1
          /\ (k = 0 => cnt = -1 /\ ss = Start /\ se = Start)
          /\ Delivered
          /\ (k >= 1 => ss >= Start /\ se > ss)
          /\ evn = Start + (k - 1) * Step
IndInit == /\ cnt \in Int /\ ss \in Int /\ se \in Int /\ k \in Int /\ evn \in Int /\ done \in BOOLEAN
           /\ IndInv
=============================================================================
