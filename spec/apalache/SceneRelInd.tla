------------------------------- MODULE SceneRelInd -------------------------------
(* SceneRel (unbounded part) -- under any sequence of adjacent swaps the antenna bookkeeping stays a permutation of the
   three slots, and the particle bookkeeping is the identity exactly when an even number of particle swaps was made:
   an inductive invariant (Apalache), behaviours of ANY length.                                               *)
EXTENDS Integers

VARIABLES
    \* @type: Int;
    p1,
    \* @type: Int;
    p2,
    \* @type: Int;
    p3,
    \* @type: Int;
    q1,
    \* @type: Int;
    q2,
    \* @type: Int;
    nswap

Init == p1 = 1 /\ p2 = 2 /\ p3 = 3 /\ q1 = 1 /\ q2 = 2 /\ nswap = 0
Swap12 == p1' = p2 /\ p2' = p1 /\ UNCHANGED <<p3, q1, q2, nswap>>
Swap23 == p2' = p3 /\ p3' = p2 /\ UNCHANGED <<p1, q1, q2, nswap>>
SwapPart == q1' = q2 /\ q2' = q1 /\ nswap' = nswap + 1 /\ UNCHANGED <<p1, p2, p3>>
Next == Swap12 \/ Swap23 \/ SwapPart

Consistent == /\ p1 \in 1..3 /\ p2 \in 1..3 /\ p3 \in 1..3 /\ p1 # p2 /\ p1 # p3 /\ p2 # p3
              /\ nswap >= 0
              /\ ((nswap % 2 = 0) => (q1 = 1 /\ q2 = 2))
              /\ ((nswap % 2 = 1) => (q1 = 2 /\ q2 = 1))
IndInit == /\ p1 \in Int /\ p2 \in Int /\ p3 \in Int /\ q1 \in Int /\ q2 \in Int /\ nswap \in Int
           /\ Consistent
=============================================================================
