------------------------------- MODULE RayRelInd -------------------------------
(* C01 / C02 (unbounded part) -- the endpoint group of RaySymmetry.tla / RayRel.tla (Swap, Shift by ANY lattice vector,
   quarter Turn, ScaleUp / ScaleDown without bounds, Stretch by ANY vector) for ANY base endpoints and behaviours of ANY
   length: the bookkeeping (swapped, turns, shift, e, ups, downs) describes the endpoints -- an inductive invariant
   (Apalache).  Coordinates are scalar variables; RotN is written out for the four values of `turns`.          *)
EXTENDS Integers

VARIABLES
    \* @type: Int;
    bsx,
    \* @type: Int;
    bsy,
    \* @type: Int;
    bsz,
    \* @type: Int;
    bdx,
    \* @type: Int;
    bdy,
    \* @type: Int;
    bdz,
    \* @type: Int;
    sx,
    \* @type: Int;
    sy,
    \* @type: Int;
    sz,
    \* @type: Int;
    dx,
    \* @type: Int;
    dy,
    \* @type: Int;
    dz,
    \* @type: Bool;
    swapped,
    \* @type: Int;
    turns,
    \* @type: Int;
    shx,
    \* @type: Int;
    shy,
    \* @type: Int;
    e,
    \* @type: Int;
    ups,
    \* @type: Int;
    downs

Init == /\ bsx \in Int /\ bsy \in Int /\ bsz \in Int /\ bdx \in Int /\ bdy \in Int /\ bdz \in Int
        /\ sx = bsx /\ sy = bsy /\ sz = bsz /\ dx = bdx /\ dy = bdy /\ dz = bdz
        /\ swapped = FALSE /\ turns = 0 /\ shx = 0 /\ shy = 0 /\ e = 0 /\ ups = 0 /\ downs = 0

Base == UNCHANGED <<bsx, bsy, bsz, bdx, bdy, bdz>>
Keep == UNCHANGED <<e, ups, downs>>
Swap == /\ sx' = dx /\ sy' = dy /\ sz' = dz /\ dx' = sx /\ dy' = sy /\ dz' = sz /\ swapped' = ~swapped
        /\ Base /\ Keep /\ UNCHANGED <<turns, shx, shy>>
Shift == \E vx \in Int, vy \in Int :
        /\ sx' = sx + vx /\ sy' = sy + vy /\ dx' = dx + vx /\ dy' = dy + vy /\ shx' = shx + vx /\ shy' = shy + vy
        /\ Base /\ Keep /\ UNCHANGED <<sz, dz, swapped, turns>>
Turn == /\ sx' = 0 - sy /\ sy' = sx /\ dx' = 0 - dy /\ dy' = dx
        /\ turns' = (IF turns = 3 THEN 0 ELSE turns + 1) /\ shx' = 0 - shy /\ shy' = shx
        /\ Base /\ Keep /\ UNCHANGED <<sz, dz, swapped>>
ScaleUp == /\ e' = e + 1 /\ ups' = ups + 1
           /\ Base /\ UNCHANGED <<sx, sy, sz, dx, dy, dz, swapped, turns, shx, shy, downs>>
ScaleDown == /\ e' = e - 1 /\ downs' = downs + 1
             /\ Base /\ UNCHANGED <<sx, sy, sz, dx, dy, dz, swapped, turns, shx, shy, ups>>
Stretch == \E vx \in Int, vy \in Int :
        /\ ~swapped /\ turns = 0 /\ shx = 0 /\ shy = 0
        /\ bdx' = bdx + vx /\ bdy' = bdy + vy /\ dx' = dx + vx /\ dy' = dy + vy
        /\ Keep /\ UNCHANGED <<bsx, bsy, bsz, bdz, sx, sy, sz, dz, swapped, turns, shx, shy>>
Next == Swap \/ Shift \/ Turn \/ ScaleUp \/ ScaleDown \/ Stretch

RotX(x, y, n) == IF n = 0 THEN x ELSE IF n = 1 THEN 0 - y ELSE IF n = 2 THEN 0 - x ELSE y
RotY(x, y, n) == IF n = 0 THEN y ELSE IF n = 1 THEN x ELSE IF n = 2 THEN 0 - y ELSE 0 - x
Consistent ==
    LET s0x == IF swapped THEN bdx ELSE bsx   s0y == IF swapped THEN bdy ELSE bsy   s0z == IF swapped THEN bdz ELSE bsz
        d0x == IF swapped THEN bsx ELSE bdx   d0y == IF swapped THEN bsy ELSE bdy   d0z == IF swapped THEN bsz ELSE bdz
    IN /\ turns \in 0..3
       /\ sx = RotX(s0x, s0y, turns) + shx /\ sy = RotY(s0x, s0y, turns) + shy /\ sz = s0z
       /\ dx = RotX(d0x, d0y, turns) + shx /\ dy = RotY(d0x, d0y, turns) + shy /\ dz = d0z
       /\ e = ups - downs
       \* what makes the solution set invariant in stratified ice: same horizontal separation, same pair of depths
       /\ (sx - dx) * (sx - dx) + (sy - dy) * (sy - dy) = (bsx - bdx) * (bsx - bdx) + (bsy - bdy) * (bsy - bdy)
IndInit == /\ bsx \in Int /\ bsy \in Int /\ bsz \in Int /\ bdx \in Int /\ bdy \in Int /\ bdz \in Int
           /\ sx \in Int /\ sy \in Int /\ sz \in Int /\ dx \in Int /\ dy \in Int /\ dz \in Int
           /\ swapped \in BOOLEAN /\ turns \in Int /\ shx \in Int /\ shy \in Int /\ e \in Int /\ ups \in Int /\ downs \in Int
           /\ Consistent
=============================================================================
