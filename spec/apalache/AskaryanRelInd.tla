---------------------------- MODULE AskaryanRelInd ----------------------------
(* C07 (unbounded part) -- the relation algebra of AskaryanRel.tla without its bounds: factors and moves are ANY
   integers (factors >= 1), behaviours of ANY length.  The invariant Consistent is inductive:
   Init => Consistent and Consistent /\ Next => Consistent' (checked with Apalache, lengths 0 and 1).  The bindable
   module AskaryanRel.tla applies the same updates (plus `last` and the fixed per-behaviour parameters, which do not
   enter the algebra) and is checked by TLC to a fixed depth.                                                   *)
EXTENDS Integers

VARIABLES
    \* @type: Int;
    kR,
    \* @type: Int;
    sign,
    \* @type: Int;
    mg,
    \* @type: Int;
    mt,
    \* @type: Int;
    kE,
    \* @type: Bool;
    zero,
    \* @type: Int;
    fdiv,
    \* @type: Int;
    num,
    \* @type: Int;
    den,
    \* @type: Int;
    shift,
    \* @type: Bool;
    rzero

Init == /\ kR = 1 /\ sign = 1 /\ mg = 0 /\ mt = 0 /\ kE = 1 /\ zero = FALSE /\ fdiv = 1
        /\ num = 1 /\ den = 1 /\ shift = 0 /\ rzero = FALSE

ScaleR == \E k \in Int : /\ k >= 1
                         /\ kR' = kR * k /\ den' = den * k
                         /\ UNCHANGED <<sign, mg, mt, kE, zero, num, shift, rzero, fdiv>>
FlipAngle == /\ sign' = 0 - sign
             /\ UNCHANGED <<kR, mg, mt, kE, zero, num, den, shift, rzero, fdiv>>
ShiftBoth == \E m \in Int : /\ mg' = mg + m /\ mt' = mt + m
                            /\ UNCHANGED <<kR, sign, kE, zero, num, den, shift, rzero, fdiv>>
ShiftT0 == \E m \in Int : /\ mt' = mt + m /\ shift' = shift + m
                          /\ UNCHANGED <<kR, sign, mg, kE, zero, num, den, rzero, fdiv>>
ScaleE == \E k \in Int : /\ k >= 1
                         /\ kE' = kE * k /\ num' = num * k
                         /\ UNCHANGED <<kR, sign, mg, mt, zero, den, shift, rzero, fdiv>>
Zero == /\ ~zero /\ zero' = TRUE /\ rzero' = TRUE
        /\ UNCHANGED <<kR, sign, mg, mt, kE, num, den, shift, fdiv>>
HalveFraction == /\ fdiv' = fdiv * 2 /\ den' = den * 2
                 /\ UNCHANGED <<kR, sign, mg, mt, kE, zero, num, shift, rzero>>
Next == HalveFraction \/ ScaleR \/ FlipAngle \/ ShiftBoth \/ ShiftT0 \/ ScaleE \/ Zero

Consistent == /\ num = kE /\ den = kR * fdiv /\ fdiv >= 1 /\ shift = mt - mg /\ rzero = zero
              /\ kR >= 1 /\ kE >= 1 /\ (sign = 1 \/ sign = -1)
IndInit == /\ kR \in Int /\ sign \in Int /\ mg \in Int /\ mt \in Int /\ kE \in Int /\ zero \in BOOLEAN /\ fdiv \in Int
           /\ num \in Int /\ den \in Int /\ shift \in Int /\ rzero \in BOOLEAN
           /\ Consistent
=============================================================================
