---------------------------- MODULE PropagateRelInd ----------------------------
(* C03 (unbounded part) -- the bilinear bookkeeping of PropagateRel.tla without its bounds: coefficients, factors
   and summands are ANY integers, behaviours of ANY length.  Consistent (M[i][j] = a[i] c[j], R = a) is inductive
   (Apalache, lengths 0 and 1).  Written with scalar variables a1, a2, c1..c3, m11..m23, r1, r2 so that the solver sees
   plain polynomial identities.                                                                                *)
EXTENDS Integers

VARIABLES
    \* @type: Int;
    a1,
    \* @type: Int;
    a2,
    \* @type: Int;
    c1,
    \* @type: Int;
    c2,
    \* @type: Int;
    c3,
    \* @type: Int;
    m11,
    \* @type: Int;
    m12,
    \* @type: Int;
    m13,
    \* @type: Int;
    m21,
    \* @type: Int;
    m22,
    \* @type: Int;
    m23,
    \* @type: Int;
    r1,
    \* @type: Int;
    r2

Init == /\ a1 = 1 /\ a2 = 0 /\ c1 = 0 /\ c2 = 0 /\ c3 = 1
        /\ m11 = 0 /\ m12 = 0 /\ m13 = 1 /\ m21 = 0 /\ m22 = 0 /\ m23 = 0 /\ r1 = 1 /\ r2 = 0

ScaleSig == \E k \in Int :
    /\ a1' = a1 * k /\ a2' = a2 * k /\ r1' = r1 * k /\ r2' = r2 * k
    /\ m11' = m11 * k /\ m12' = m12 * k /\ m13' = m13 * k /\ m21' = m21 * k /\ m22' = m22 * k /\ m23' = m23 * k
    /\ UNCHANGED <<c1, c2, c3>>
AddSig1 == \E s \in Int :
    /\ a1' = a1 + s /\ r1' = r1 + s
    /\ m11' = m11 + s * c1 /\ m12' = m12 + s * c2 /\ m13' = m13 + s * c3
    /\ UNCHANGED <<a2, r2, c1, c2, c3, m21, m22, m23>>
AddSig2 == \E s \in Int :
    /\ a2' = a2 + s /\ r2' = r2 + s
    /\ m21' = m21 + s * c1 /\ m22' = m22 + s * c2 /\ m23' = m23 + s * c3
    /\ UNCHANGED <<a1, r1, c1, c2, c3, m11, m12, m13>>
ScalePol == \E k \in Int :
    /\ c1' = c1 * k /\ c2' = c2 * k /\ c3' = c3 * k
    /\ m11' = m11 * k /\ m12' = m12 * k /\ m13' = m13 * k /\ m21' = m21 * k /\ m22' = m22 * k /\ m23' = m23 * k
    /\ UNCHANGED <<a1, a2, r1, r2>>
AddPol1 == \E s \in Int : /\ c1' = c1 + s /\ m11' = m11 + s * a1 /\ m21' = m21 + s * a2
                          /\ UNCHANGED <<a1, a2, r1, r2, c2, c3, m12, m13, m22, m23>>
AddPol2 == \E s \in Int : /\ c2' = c2 + s /\ m12' = m12 + s * a1 /\ m22' = m22 + s * a2
                          /\ UNCHANGED <<a1, a2, r1, r2, c1, c3, m11, m13, m21, m23>>
AddPol3 == \E s \in Int : /\ c3' = c3 + s /\ m13' = m13 + s * a1 /\ m23' = m23 + s * a2
                          /\ UNCHANGED <<a1, a2, r1, r2, c1, c2, m11, m12, m21, m22>>
Next == ScaleSig \/ AddSig1 \/ AddSig2 \/ ScalePol \/ AddPol1 \/ AddPol2 \/ AddPol3

Consistent == /\ m11 = a1 * c1 /\ m12 = a1 * c2 /\ m13 = a1 * c3
              /\ m21 = a2 * c1 /\ m22 = a2 * c2 /\ m23 = a2 * c3
              /\ r1 = a1 /\ r2 = a2
IndInit == /\ a1 \in Int /\ a2 \in Int /\ c1 \in Int /\ c2 \in Int /\ c3 \in Int
           /\ m11 \in Int /\ m12 \in Int /\ m13 \in Int /\ m21 \in Int /\ m22 \in Int /\ m23 \in Int
           /\ r1 \in Int /\ r2 \in Int
           /\ Consistent
=============================================================================
