---------------------------- MODULE LayeredPaths ----------------------------
(* C18 (layered half) -- a ray walking through a stack of uniform layers.

   All rays share the horizontal slowness beta = 1.2 (Snell invariant n sin(theta)), and the
   layer indices are taken from {1.3, 1.5, 2.0}, for which sqrt(n^2 - beta^2) is rational
   (0.5, 0.9, 1.6): crossing a vertical distance h in a layer advances the ray horizontally by
   h * Tan(n) and along the path by h * Sec(n), both integers when h is a multiple of 60.
   Indices are carried times 10.  The walker starts at the source depth, moves to the next
   layer boundary (Leg), is transmitted or reflected there, and may arrive at the receiver
   depth whenever that lies ahead in the current layer.  Every finished behaviour is an exact
   solution (horizontal distance rho, path length, optical length, launch direction, chain of
   single-layer legs) that the layered tracer must find when the receiver is placed at rho.  *)
EXTENDS Integers, Sequences, FiniteSets, TLC

CONSTANTS Stacks,       \* set of stacks: Seq of [n |-> 13|15|20, h |-> thickness], top layer first
          Depths,       \* candidate source / receiver depths (<= 0)
          MaxLegs

VARIABLES st, zs, zr, lay, dir, z, refl, rho, len, opt, chain, pc, d0
vars == <<st, zs, zr, lay, dir, z, refl, rho, len, opt, chain, pc, d0>>

TanNum(n) == CASE n = 13 -> 12 [] n = 15 -> 4 [] n = 20 -> 3
TanDen(n) == CASE n = 13 -> 5  [] n = 15 -> 3 [] n = 20 -> 4
SecNum(n) == CASE n = 13 -> 13 [] n = 15 -> 5 [] n = 20 -> 5
SecDen(n) == CASE n = 13 -> 5  [] n = 15 -> 3 [] n = 20 -> 4
Abs(x) == IF x < 0 THEN -x ELSE x

RECURSIVE TopOf(_, _)
TopOf(s, i) == IF i = 1 THEN 0 ELSE TopOf(s, i - 1) - s[i - 1].h
BotOf(s, i) == TopOf(s, i) - s[i].h
LayerOf(s, depth) == CHOOSE i \in 1..Len(s) : depth <= TopOf(s, i) /\ depth > BotOf(s, i)   \* upper bound inclusive
Inside(s, depth) == \E i \in 1..Len(s) : depth < TopOf(s, i) /\ depth > BotOf(s, i)        \* strictly inside a layer

Init == /\ st \in Stacks
        /\ zs \in Depths /\ zr \in Depths /\ Inside(st, zs) /\ Inside(st, zr)
        /\ lay = LayerOf(st, zs) /\ z = zs
        /\ dir \in {1, -1} /\ d0 = dir
        /\ refl \in {0, 1}
        /\ rho = 0 /\ len = 0 /\ opt = 0 /\ chain = <<>> /\ pc = "go"

(* advance vertically to depth t inside the current layer *)
Advance(t) == LET h == Abs(t - z)  n == st[lay].n IN
              /\ rho' = rho + (h * TanNum(n)) \div TanDen(n)
              /\ len' = len + (h * SecNum(n)) \div SecDen(n)
              /\ opt' = opt + n * ((h * SecNum(n)) \div SecDen(n))
              /\ chain' = Append(chain, <<lay, z, t>>)
              /\ z' = t

Arrive == /\ pc = "go"
          /\ LayerOf(st, zr) = lay
          /\ (zr - z) * dir > 0
          /\ Advance(zr)
          /\ pc' = "done"
          /\ UNCHANGED <<st, zs, zr, lay, dir, refl, d0>>

Boundary == IF dir = 1 THEN TopOf(st, lay) ELSE BotOf(st, lay)
NextLayer == IF dir = 1 THEN lay - 1 ELSE lay + 1

Transmit == /\ pc = "go" /\ Len(chain) < MaxLegs
            /\ NextLayer \in 1..Len(st)
            /\ Boundary # z
            /\ Advance(Boundary)
            /\ lay' = NextLayer
            /\ UNCHANGED <<st, zs, zr, dir, refl, pc, d0>>

(* reflection at a layer boundary; at the outer faces only off the top (index above = 1 < beta: total reflection) *)
Reflect == /\ pc = "go" /\ Len(chain) < MaxLegs /\ refl > 0
           /\ NextLayer \in 1..Len(st) \/ dir = 1
           /\ Boundary # z
           /\ Advance(Boundary)
           /\ dir' = 0 - dir /\ refl' = refl - 1
           /\ UNCHANGED <<st, zs, zr, lay, pc, d0>>

Next == Arrive \/ Transmit \/ Reflect
Spec == Init /\ [][Next]_vars

Done == pc = "done"
Continuous == \A k \in 1..(Len(chain) - 1) : chain[k][3] = chain[k + 1][2]
StartsAndEnds == Done => chain[1][2] = zs /\ chain[Len(chain)][3] = zr
LegsInsideLayers == \A k \in 1..Len(chain) :
                       LET i == chain[k][1] IN
                       /\ chain[k][2] <= TopOf(st, i) /\ chain[k][2] >= BotOf(st, i)
                       /\ chain[k][3] <= TopOf(st, i) /\ chain[k][3] >= BotOf(st, i)
(* optical length is never shorter than the straight-line lower bound n_min * geometric distance *)
LengthBound == Done => len * len >= rho * rho + (zr - zs) * (zr - zs)
=============================================================================
