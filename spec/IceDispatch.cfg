SPECIFICATION Spec
CONSTANTS
  Ranges <- RangesAll
  Stacks <- StacksAll
  Depths <- DepthsAll
  Shapes <- ShapesAll
INVARIANT BoundsBelongToTheIce
INVARIANT UniqueLayer
INVARIANT TotalInsideStack
CHECK_DEADLOCK FALSE
