SPECIFICATION Spec
CONSTANTS
  Model = "PREM"
  Radii <- PremRadii
  ProbeSets <- PremProbes
  Forms = {"scalar", "list", "array", "column", "int"}
  Endpoints = {1, 2, 3, 4, 5, 6, 7, 8}
  AboveEndpoints = {5, 6}
  Zeniths = {0, 1, 2, 3, 4, 5, 6, 7, 8, 9}
  HorizonIndex = 3
  Factors = {2, 5}
  MaxLevel = 6
CONSTRAINT LevelBound
INVARIANT ShellsPartition
INVARIANT ProbeShells
INVARIANT Consistent
CHECK_DEADLOCK FALSE
