SPECIFICATION Spec
CONSTANTS
  MaxObjs = 5
  MaxArr = 26
  Grids <- GridsSim
  ValShapes <- ValsSim
  VTypes = {0, 1, 2, 3}
  Fns <- FnsSim
  Scales <- ScalesAll
  Divs = {2, 4}
  Shifts <- ShiftsSim
  Pokes <- PokesAll
  AliasWithTimes = FALSE
INVARIANT LenInv
INVARIANT NoAlias
INVARIANT AddPointwise
INVARIANT AddRefused
INVARIANT EmptyNeutral
INVARIANT ScaleAll
INVARIANT FunctionReevaluates
PROPERTY Independent
CHECK_DEADLOCK FALSE
