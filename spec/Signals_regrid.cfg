SPECIFICATION Spec
CONSTANTS
  MaxObjs = 5
  MaxArr = 30
  Grids <- GridsEdge
  ValShapes <- ValsSmall
  VTypes = {0, 1, 2}
  Fns <- FnsSmall
  Scales = {}
  Divs = {}
  Shifts = {2}
  Pokes = {}
  AliasWithTimes = FALSE
INVARIANT LenInv
INVARIANT NoAlias
INVARIANT AddPointwise
INVARIANT AddRefused
INVARIANT EmptyNeutral
PROPERTY Independent
CHECK_DEADLOCK FALSE
