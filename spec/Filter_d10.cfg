SPECIFICATION Spec
CONSTANTS
  Ns = {3, 4}
  SigVals <- SigValsAll
  Kernels <- KernelsWrap
  Bs <- BsAll
  Variants <- VariantsOne
  K = 2
  MaxFilters = 1
INVARIANT Linear
INVARIANT NoWrap
INVARIANT Unit
INVARIANT Passive
INVARIANT PureDelayShifts
INVARIANT NeverWraps
CHECK_DEADLOCK FALSE
