SPECIFICATION Spec
CONSTANTS
  Attrs <- UPathAttrs
  Props = {"tof", "geometry"}
  Vals <- ValsG
  Static <- UPathAttrs
  IdentitySkip = FALSE
CONSTRAINT LevelBoundG
INVARIANT NoStale
INVARIANT ReadIsFresh
CHECK_DEADLOCK FALSE
