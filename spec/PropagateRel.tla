----------------------------- MODULE PropagateRel -----------------------------
(* C03 (relational core) -- RayPath.propagate(signal, polarization) is bilinear and time-invariant.

   The input signal is an integer combination a[1] s1 + a[2] s2 of two basis signals, the polarization an integer
   combination c[1] ex + c[2] ey + c[3] ez of the unit vectors, the time grid is the base grid moved by mg samples.
   Separately from the inputs the state carries the matrix M that predicts the output:
        out_s = SUM_ij M[i][j] * propagate(s_i, e_j).s      (same for .p),     out(no polarization) = SUM_i R[i] propagate(s_i)
   updated by each action with its own rule (scaling multiplies, adding a basis element adds the other factor's
   coefficients to one row / column).  Consistent: M[i][j] = a[i] c[j] and R = a -- the algebra composes.
   The driver computes the six (plus two) base outputs once per path at the initial state, and at every later state
   compares the real propagate() of the combined inputs with the predicted combination; it also checks at every
   state the clauses that are not relations: output grid = input grid + time of flight, output energy <= |c|^2 input
   energy, unit / orthogonal / transverse polarization vectors, attenuation in (0,1] and not growing with |f|.   *)
EXTENDS Integers, Sequences, TLC

CONSTANTS Tracers, Geos, Interps, Factors, Moves, Bound, Steps

VARIABLES tracer, geo, interp,       \* fixed per behaviour
          a, c, mg, sx,               \* inputs (sx: index of the grid step)
          M, R,                       \* predicted output coefficients
          last
vars == <<tracer, geo, interp, a, c, mg, sx, M, R, last>>

Abs(x) == IF x < 0 THEN 0 - x ELSE x
Small(x) == Abs(x) <= Bound

Init == /\ tracer \in Tracers /\ geo \in Geos /\ interp \in Interps
        /\ a = <<1, 0>> /\ c = <<0, 0, 1>> /\ mg = 0 /\ sx = 1
        /\ M = <<<<0, 0, 1>>, <<0, 0, 0>>>> /\ R = <<1, 0>>
        /\ last = [op |-> "Init"]
Fixed == UNCHANGED <<tracer, geo, interp>>

ScaleSig(k) == /\ \A i \in 1..2 : Small(a[i] * k)
               /\ a' = [i \in 1..2 |-> a[i] * k]
               /\ M' = [i \in 1..2 |-> [j \in 1..3 |-> M[i][j] * k]]
               /\ R' = [i \in 1..2 |-> R[i] * k]
               /\ last' = [op |-> "ScaleSig", k |-> k]
               /\ Fixed /\ UNCHANGED <<c, mg, sx>>
AddSig(i, s) == /\ Small(a[i] + s)
                /\ a' = [a EXCEPT ![i] = @ + s]
                /\ M' = [M EXCEPT ![i] = [j \in 1..3 |-> @[j] + s * c[j]]]
                /\ R' = [R EXCEPT ![i] = @ + s]
                /\ last' = [op |-> "AddSig", i |-> i, s |-> s]
                /\ Fixed /\ UNCHANGED <<c, mg, sx>>
ScalePol(k) == /\ \A j \in 1..3 : Small(c[j] * k)
               /\ c' = [j \in 1..3 |-> c[j] * k]
               /\ M' = [i \in 1..2 |-> [j \in 1..3 |-> M[i][j] * k]]
               /\ last' = [op |-> "ScalePol", k |-> k]
               /\ Fixed /\ UNCHANGED <<a, mg, sx, R>>
AddPol(j, s) == /\ Small(c[j] + s)
                /\ c' = [c EXCEPT ![j] = @ + s]
                /\ M' = [i \in 1..2 |-> [M[i] EXCEPT ![j] = @ + s * a[i]]]
                /\ last' = [op |-> "AddPol", j |-> j, s |-> s]
                /\ Fixed /\ UNCHANGED <<a, mg, sx, R>>
ShiftGrid(m) == /\ mg' = mg + m
                /\ last' = [op |-> "ShiftGrid", m |-> m]
                /\ Fixed /\ UNCHANGED <<a, c, sx, M, R>>
(* the same samples on a grid of another step: same coefficients, but over the base outputs of that step -- the path
   object is the same one as before, so nothing computed for the previous step may leak *)
ChangeStep(s) == /\ s # sx
                 /\ sx' = s
                 /\ last' = [op |-> "ChangeStep", s |-> s]
                 /\ Fixed /\ UNCHANGED <<a, c, mg, M, R>>

Next == \/ \E k \in Factors : ScaleSig(k)
        \/ \E i \in 1..2, s \in {1, -1} : AddSig(i, s)
        \/ \E k \in Factors : ScalePol(k)
        \/ \E j \in 1..3, s \in {1, -1} : AddPol(j, s)
        \/ \E m \in Moves : ShiftGrid(m)
        \/ \E s \in Steps : ChangeStep(s)
Spec == Init /\ [][Next]_vars

Consistent == /\ \A i \in 1..2, j \in 1..3 : M[i][j] = a[i] * c[j]
              /\ R = a
=============================================================================
