----------------------------- MODULE AskaryanRel -----------------------------
(* C07 (relational core) -- transformations of the inputs of an Askaryan pulse under which the
   output must transform in a known, exact way:
     ScaleR(k)       viewing distance times k          => field divided by k
     FlipAngle       viewing angle negated             => field unchanged
     ShiftBoth(m)    time grid and shower time moved together by m samples  => field unchanged
     ShiftT0(m)      only the shower time moved by m whole samples          => field moved by m samples
     ScaleE(k)       shower energy times k (EM shower on the cone)          => field times k
     Zero(how)       shower energy zero                => all-zero field of the right length
   The state carries the current inputs and, separately, the bookkeeping `rel` (scale as a fraction,
   shift in samples, zero flag) that says how the current field relates to the field of the base
   inputs.  Consistent states that the bookkeeping describes the inputs; the driver evaluates the real
   models (ZHS, AVZ, ARZ) at every state and compares with the base field through `rel`.
   AngleScan asks for the peak amplitudes over a lattice of angles around the Cherenkov angle: the
   largest is on the cone and they fall on either side.                                        *)
EXTENDS Integers, Sequences, TLC

CONSTANTS Models, Lengths, Steps, Fractions, Factors, Moves, BothMoves, Energies, Ices,
          OffCone       \* angle indices a: theta = theta_c + 0.02 * a for |a| < 100; 100, 101, 102 stand for theta = 0, pi/2, pi

VARIABLES model, n, step, frac, off, en, ice,  \* fixed per behaviour: model, grid length, grid step index, (em, had) fractions, angle index, base energy index
          kR, sign, mg, mt, kE, zero, fdiv,     \* current inputs relative to the base (fdiv: the EM fraction is 1 / fdiv)
          rel, last
vars == <<model, n, step, frac, off, en, ice, kR, sign, mg, mt, kE, zero, fdiv, rel, last>>

Init == /\ model \in Models /\ n \in Lengths /\ step \in Steps /\ frac \in Fractions /\ off \in OffCone /\ en \in Energies /\ ice \in Ices
        /\ kR = 1 /\ sign = 1 /\ mg = 0 /\ mt = 0 /\ kE = 1 /\ zero = FALSE /\ fdiv = 1
        /\ rel = [num |-> 1, den |-> 1, shift |-> 0, zero |-> FALSE]
        /\ last = [op |-> "Init"]

Fixed == UNCHANGED <<model, n, step, frac, off, en, ice>>

ScaleR(k) == /\ kR * k <= 8
             /\ kR' = kR * k /\ rel' = [rel EXCEPT !.den = @ * k]
             /\ last' = [op |-> "ScaleR", k |-> k]
             /\ Fixed /\ UNCHANGED <<sign, mg, mt, kE, zero, fdiv>>
FlipAngle == /\ sign' = 0 - sign /\ UNCHANGED rel
             /\ last' = [op |-> "FlipAngle"]
             /\ Fixed /\ UNCHANGED <<kR, mg, mt, kE, zero, fdiv>>
ShiftBoth(m) == /\ mg + m <= 2000000 /\ mg + m >= -100
                /\ mg' = mg + m /\ mt' = mt + m /\ UNCHANGED rel
                /\ last' = [op |-> "ShiftBoth", m |-> m]
                /\ Fixed /\ UNCHANGED <<kR, sign, kE, zero, fdiv>>
ShiftT0(m) == /\ mt' = mt + m /\ rel' = [rel EXCEPT !.shift = @ + m]
              /\ (mt + m) - mg <= 140 /\ mg - (mt + m) <= 140        \* up to and beyond the edges of the window (relation holds on the overlap)
              /\ last' = [op |-> "ShiftT0", m |-> m]
              /\ Fixed /\ UNCHANGED <<kR, sign, mg, kE, zero, fdiv>>
(* proportional to the shower energy: electromagnetic shower viewed on the cone (exact for the parameterised models) *)
ScaleE(k) == /\ frac = <<1, 0>> /\ off = 0 /\ kE * k <= 100
             /\ kE' = kE * k /\ rel' = [rel EXCEPT !.num = @ * k]
             /\ last' = [op |-> "ScaleE", k |-> k]
             /\ Fixed /\ UNCHANGED <<kR, sign, mg, mt, zero, fdiv>>
(* the electromagnetic fraction of the particle's energy halved (nothing hadronic): the shower energy halves, and on the cone
   the field with it -- the same law as ScaleE, reached through the fraction instead of the particle energy *)
HalveFraction == /\ frac = <<1, 0>> /\ off = 0 /\ fdiv * 2 <= 4
                 /\ fdiv' = fdiv * 2 /\ rel' = [rel EXCEPT !.den = @ * 2]
                 /\ last' = [op |-> "HalveFraction"]
                 /\ Fixed /\ UNCHANGED <<kR, sign, mg, mt, kE, zero>>
Zero(how) == /\ ~zero                         \* how: "energy" (particle energy 0) or "fractions" (em = had = 0)
        /\ zero' = TRUE /\ rel' = [rel EXCEPT !.zero = TRUE]
        /\ last' = [op |-> "Zero", how |-> how]
        /\ Fixed /\ UNCHANGED <<kR, sign, mg, mt, kE, fdiv>>
AngleScan == /\ last.op = "Init"
             /\ last' = [op |-> "AngleScan", expect |-> "largest on the cone, falling on either side"]
             /\ Fixed /\ UNCHANGED <<kR, sign, mg, mt, kE, zero, fdiv, rel>>

Next == \/ \E k \in Factors : ScaleR(k)
        \/ FlipAngle
        \/ \E m \in BothMoves : ShiftBoth(m)
        \/ \E m \in Moves : ShiftT0(m)
        \/ \E k \in Factors : ScaleE(k)
        \/ \E how \in {"energy", "fractions"} : Zero(how)
        \/ AngleScan
        \/ HalveFraction
Spec == Init /\ [][Next]_vars

(* the bookkeeping describes the inputs *)
Consistent == /\ rel.num = kE /\ rel.den = kR * fdiv
              /\ rel.shift = mt - mg
              /\ rel.zero = zero
=============================================================================
