---- MODULE LazyObjMC ----
EXTENDS LazyObj
TracerAttrs == {"from_point", "to_point", "ice", "dz"}
PathAttrs == {"from_point", "to_point", "theta0", "ice", "dz", "direct"}
UPathAttrs == {"from_point", "to_point", "theta0", "ice"}
ValsAll == {0, 1, 2, 10, 11, 12}
LevelBound == TLCGet("level") <= 6
LevelBoundG == TLCGet("level") <= 4
ValsG == {0, 1, 10, 11}
====
