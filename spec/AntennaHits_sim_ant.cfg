SPECIFICATION Spec
CONSTANTS
  Kind = "antenna"
  Noisy = FALSE
  Sigs <- SigsSim
  Windows <- WinSim
  Thr = 24
  MaxSigs = 4

INVARIANT CachesOrdered
INVARIANT OnePerSignal
INVARIANT TriggeredAreExactlyThose
INVARIANT FullIsSuperposition
INVARIANT ClearIsInit
PROPERTY StaleOnlyByD9
PROPERTY NoiseMasterUntilReset
CHECK_DEADLOCK FALSE
