---------------------------- MODULE TraceKernel ----------------------------
(* Trace validation for Kernel.tla: recorded runs of the real EventKernel.event with
   real (shipped) components wrapped in recording proxies.  One JSON file holds a batch
   of traces [sc |-> scenario derived from the observation, events |-> observable events];
   every trace is an initial state, TLC explores each (the spec is deterministic given the
   scenario, internal steps SkipParticle / TakeParticle and trigger evaluation without
   trigger functions are silent) and the furthest event matched is recorded per trace in a
   TLC register and printed by the postcondition.                                        *)
EXTENDS Kernel, Json, IOUtils, TLCExt

Traces == JsonDeserialize(IOEnv.TRACE_FILE)

VARIABLES tid, l
tvars == <<vars, tid, l>>

SetOf(seq) == {<<seq[i][1], seq[i][2], seq[i][3]>> : i \in 1..Len(seq)}
ScOf(j) == [P |-> j.P, A |-> j.A, w |-> j.w, wmin |-> j.wmin, nsol |-> j.nsol, off |-> SetOf(j.off), bad |-> SetOf(j.bad),
            trig |-> j.trig, writer |-> j.writer, thrown |-> j.thrown]

Events == Traces[tid].events
Ev == Events[l]
Pairs(seq) == [i \in 1..Len(seq) |-> <<seq[i][1], seq[i][2]>>]

TraceInit == \E t \in 1..Len(Traces) :
                /\ tid = t /\ l = 1
                /\ InitWith(ScOf(Traces[t].sc))
                /\ TLCSet(t, 0)

Silent == /\ \/ SkipParticle \/ TakeParticle
             \/ (sc.trig = "none" /\ EvalTriggers)
          /\ UNCHANGED <<tid, l>>

Matches ==
    \/ Ev.ev = "CreateEvent" /\ CreateEvent
    \/ Ev.ev = "Tracer" /\ Tracer /\ Ev.p = p /\ Ev.a = a /\ Ev.n = sc.nsol[p][a]
    \/ Ev.ev = "Solution" /\ Solution /\ Ev.p = p /\ Ev.a = a /\ Ev.s = s
          /\ Ev.kind = last'.kind /\ Ev.model = last'.modelCalled
          /\ Ev.propagated = (last'.kind = "pulse") /\ Ev.grid_ok
    \/ Ev.ev = "EvalTriggers" /\ sc.trig # "none" /\ EvalTriggers
          /\ Ev.nkeys = (IF sc.trig = "dict" THEN 2 ELSE 1)
    \/ Ev.ev = "WriterAdd" /\ WriterAdd
          /\ \A k \in 1..sc.A : Pairs(Ev.paths[k]) = paths[k] /\ Ev.pols[k] = Len(pols[k])
          /\ Ev.thrown = sc.thrown
          /\ Ev.tform = trg.form
          /\ (trg.form # "none" => Ev.tglobal = trg.global)
          /\ (trg.form = "dict" => Ev.textra = trg.extra)
          /\ Ev.same_event
    \/ Ev.ev = "Return" /\ Return /\ Ev.same_event
          /\ Ev.tform = (IF sc.trig = "none" THEN "none" ELSE "some")
          /\ (sc.trig # "none" => Ev.tglobal = GlobalTrig(rx))

Step == /\ l <= Len(Events)
        /\ Matches
        /\ l' = l + 1 /\ UNCHANGED tid

TraceNext == Silent \/ Step
TraceSpec == TraceInit /\ [][TraceNext]_tvars

(* progress register: number of events matched, +1 when the kernel model has also terminated *)
Progress == (l - 1) + (IF pc = "done" THEN 1 ELSE 0)
Track == TLCSet(tid, IF TLCGet(tid) > Progress THEN TLCGet(tid) ELSE Progress)
Verdicts == \A t \in 1..Len(Traces) :
               PrintT(<<"VERDICT", t, TLCGet(t), Len(Traces[t].events) + 1>>)
=============================================================================
