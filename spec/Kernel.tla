------------------------------- MODULE Kernel -------------------------------
(* C10 -- the call protocol of EventKernel.event (pyrex/kernel.py).

   A scenario `sc` fixes what the pluggable components will answer:
     P, A        numbers of particles and antennas
     w[p]        weights of particle p: [surv, inter, forced] in tenths, -1 = None
     wmin        weight cut: [form |-> "none" | "scalar" | "pair", m1, m2] (tenths)
     nsol[p][a]  number of ray solutions the tracer reports from particle p to antenna a
     off         set of <<p,a,s>> whose viewing angle is beyond the off-cone cut
     bad         set of <<p,a,s>> for which the signal model raises ValueError
     trig        "none" | "func" | "dict"      form of the triggers argument
     writer      BOOLEAN
     thrown      generator count delta for this event
   The program counter follows the loop nest of the code; one action per call of a
   component (tracer construction, signal model, propagate, receive, trigger
   functions, writer.add) so that recorded traces of real runs can be validated
   action by action, and so that partial executions (an exception escaping a
   component) are simply traces that stop matching.                            *)
EXTENDS Integers, Sequences, FiniteSets, TLC

CONSTANTS Scenarios

VARIABLES sc, pc, p, a, s,
          rx,       \* per antenna: Seq of [p, s, kind] received ("pulse" | "empty")
          paths,    \* per antenna: Seq of <<p, s>> appended to ray_paths
          pols,     \* per antenna: Seq of <<p, s>> appended to polarizations
          calls,    \* Seq of <<p, a, s>>: signal model constructions
          trg,      \* value computed from the trigger functions ("unset" before)
          wr,       \* arguments handed to writer.add ("unset" before)
          ret,      \* return value ("unset" before)
          last
vars == <<sc, pc, p, a, s, rx, paths, pols, calls, trg, wr, ret, last>>

(* ---- the weight cut ---- *)
Weight(wp) == IF wp.forced # -1 THEN wp.forced * 10
              ELSE (IF wp.surv = -1 THEN 10 ELSE wp.surv) * (IF wp.inter = -1 THEN 10 ELSE wp.inter)   \* hundredths
Passes(k) == LET wp == sc.w[k] IN
             CASE sc.wmin.form = "none"   -> TRUE
               [] sc.wmin.form = "scalar" -> ~(Weight(wp) < sc.wmin.m1 * 10)
               [] sc.wmin.form = "pair"   -> ~((wp.surv # -1 /\ wp.surv < sc.wmin.m1) \/ (wp.inter # -1 /\ wp.inter < sc.wmin.m2))

(* ---- what the trigger functions of the driver compute from the antennas ---- *)
Hits(r, k) == Len(r[k])
GlobalTrig(r) == \E k \in 1..sc.A : Hits(r, k) > 0
ExtraTrig(r)  == \E k \in 1..sc.A : Hits(r, k) > 1
Triggered(r)  == CASE sc.trig = "none" -> [form |-> "none"]
                   [] sc.trig = "func" -> [form |-> "func", global |-> GlobalTrig(r)]
                   [] sc.trig = "dict" -> [form |-> "dict", global |-> GlobalTrig(r), extra |-> ExtraTrig(r)]

EmptyPerAnt == [k \in 1..sc.A |-> <<>>]
InitWith(scn) ==
    /\ sc = scn /\ pc = "start" /\ p = 0 /\ a = 0 /\ s = 0
    /\ rx = [k \in 1..scn.A |-> <<>>] /\ paths = [k \in 1..scn.A |-> <<>>] /\ pols = [k \in 1..scn.A |-> <<>>]
    /\ calls = <<>> /\ trg = "unset" /\ wr = "unset" /\ ret = "unset"
    /\ last = [op |-> "Init"]
Init == \E scn \in Scenarios : InitWith(scn)

(* next particle at or after k *)
GotoParticle(k) == IF k > sc.P THEN /\ pc' = "triggers" /\ p' = k /\ a' = 0 /\ s' = 0
                   ELSE /\ pc' = "particle" /\ p' = k /\ a' = 0 /\ s' = 0
GotoAntenna(k)  == IF k > sc.A THEN GotoParticle(p + 1)
                   ELSE /\ pc' = "antenna" /\ a' = k /\ s' = 0 /\ UNCHANGED p

CreateEvent == /\ pc = "start"
               /\ GotoParticle(1)
               /\ last' = [op |-> "CreateEvent"]
               /\ UNCHANGED <<sc, rx, paths, pols, calls, trg, wr, ret>>

SkipParticle == /\ pc = "particle" /\ ~Passes(p)
                /\ GotoParticle(p + 1)
                /\ last' = [op |-> "SkipParticle", p |-> p]
                /\ UNCHANGED <<sc, rx, paths, pols, calls, trg, wr, ret>>
TakeParticle == /\ pc = "particle" /\ Passes(p)
                /\ pc' = "antenna" /\ a' = 1 /\ s' = 0 /\ UNCHANGED p
                /\ last' = [op |-> "TakeParticle", p |-> p]
                /\ UNCHANGED <<sc, rx, paths, pols, calls, trg, wr, ret>>

(* tracer constructed for (p, a); no path => next antenna; else all its solutions are appended to ray_paths *)
Tracer == /\ pc = "antenna"
          /\ LET n == sc.nsol[p][a] IN
             IF n = 0
             THEN /\ GotoAntenna(a + 1)
                  /\ UNCHANGED paths
             ELSE /\ paths' = [paths EXCEPT ![a] = @ \o [k \in 1..n |-> <<p, k>>]]
                  /\ pc' = "solution" /\ s' = 1 /\ UNCHANGED <<p, a>>
          /\ last' = [op |-> "Tracer", p |-> p, a |-> a, n |-> sc.nsol[p][a]]
          /\ UNCHANGED <<sc, rx, pols, calls, trg, wr, ret>>

NextSolution == IF s + 1 > sc.nsol[p][a] THEN GotoAntenna(a + 1)
                ELSE /\ s' = s + 1 /\ UNCHANGED <<pc, p, a>>

(* one solution: polarization appended, then either an empty signal (off cone, or the model refuses)
   or model -> propagate -> receive *)
Solution ==
    /\ pc = "solution"
    /\ pols' = [pols EXCEPT ![a] = Append(@, <<p, s>>)]
    /\ LET isoff == <<p, a, s>> \in sc.off
           isbad == <<p, a, s>> \in sc.bad
           kind  == IF isoff \/ isbad THEN "empty" ELSE "pulse"
       IN /\ calls' = IF isoff THEN calls ELSE Append(calls, <<p, a, s>>)
          /\ rx' = [rx EXCEPT ![a] = Append(@, [p |-> p, s |-> s, kind |-> kind])]
          /\ last' = [op |-> "Solution", p |-> p, a |-> a, s |-> s, kind |-> kind, modelCalled |-> ~isoff]
    /\ NextSolution
    /\ UNCHANGED <<sc, paths, trg, wr, ret>>

EvalTriggers == /\ pc = "triggers"
                /\ trg' = Triggered(rx)
                /\ pc' = IF sc.writer THEN "writer" ELSE "return"
                /\ last' = [op |-> "EvalTriggers", res |-> Triggered(rx)]
                /\ UNCHANGED <<sc, p, a, s, rx, paths, pols, calls, wr, ret>>

WriterAdd == /\ pc = "writer"
             /\ wr' = [triggered |-> trg, paths |-> paths, pols |-> pols, thrown |-> sc.thrown]
             /\ pc' = "return"
             /\ last' = [op |-> "WriterAdd", triggered |-> trg, paths |-> paths, pols |-> pols, thrown |-> sc.thrown]
             /\ UNCHANGED <<sc, p, a, s, rx, paths, pols, calls, trg, ret>>

Return == /\ pc = "return"
          /\ ret' = CASE sc.trig = "none" -> [event |-> TRUE]
                      [] OTHER -> [event |-> TRUE, triggered |-> trg.global]
          /\ pc' = "done"
          /\ last' = [op |-> "Return", res |-> ret']
          /\ UNCHANGED <<sc, p, a, s, rx, paths, pols, calls, trg, wr>>

Next == CreateEvent \/ SkipParticle \/ TakeParticle \/ Tracer \/ Solution \/ EvalTriggers \/ WriterAdd \/ Return
Spec == Init /\ [][Next]_vars

(* ------------------------------ properties ------------------------------ *)
RECURSIVE Expected(_, _)       \* signals antenna k must have received from particles 1..q, in order
Expected(k, q) == IF q = 0 THEN <<>>
                  ELSE Expected(k, q - 1) \o (IF Passes(q) THEN [j \in 1..sc.nsol[q][k] |-> <<q, j>>] ELSE <<>>)
Key(r) == [j \in 1..Len(r) |-> <<r[j].p, r[j].s>>]

Done == pc = "done"
OneSignalPerSolution  == Done => \A k \in 1..sc.A : Key(rx[k]) = Expected(k, sc.P)
OffConeOnlySubstitutes == \A k \in 1..sc.A : \A j \in 1..Len(rx[k]) :
                             (rx[k][j].kind = "empty") <=> (<<rx[k][j].p, k, rx[k][j].s>> \in (sc.off \cup sc.bad))
PathsPolsAligned      == Done => \A k \in 1..sc.A : paths[k] = Key(rx[k]) /\ pols[k] = Key(rx[k])
ModelCalledUnlessOff  == Done => \A k \in 1..Len(calls) : calls[k] \notin sc.off
WriterGetsWhatAntennasGot == Done /\ sc.writer => /\ wr.paths = [k \in 1..sc.A |-> Key(rx[k])]
                                                  /\ wr.pols = wr.paths
                                                  /\ wr.triggered = Triggered(rx)
                                                  /\ wr.thrown = sc.thrown
WriterOnlyIfGiven     == Done /\ ~sc.writer => wr = "unset"
TriggerIsFunctionOfAntennas == Done => trg = Triggered(rx)
ReturnShape == Done => ret = (IF sc.trig = "none" THEN [event |-> TRUE] ELSE [event |-> TRUE, triggered |-> GlobalTrig(rx)])
Terminates == <>Done
=============================================================================
