------------------------------ MODULE Detector ------------------------------
(* C19 -- detector composition (pyrex/detector.py: Detector, CombinedDetector,
   flatten).  A heap of nodes:
     ant   an antenna            [k, hit, above]
     list  a python list         [k, items]          (antennas or nested lists)
     str   a base Detector       [k, cls, items]     (string of antennas; cls "A"/"B" fixes which keywords
                                                      its build_antennas / triggered overrides accept)
     sta   a Detector of strings [k, items]
     comb  a CombinedDetector    [k, items]
   `+`, `+=` and sum build comb nodes exactly as the code does (merge when an
   operand is combined, nest otherwise); the property is about Flat, the
   left-to-right flattening.  Keyword dispatch of build / trigger calls is
   specified as the property states it (every string reached gets exactly the
   keywords it accepts); `got` records what each string was called with.
   AsIsIAdd = TRUE: `+=` appends before testing positions (defect D15).       *)
EXTENDS Integers, Sequences, FiniteSets, TLC

CONSTANTS MaxObjs, AsIsIAdd,
          Ops,           \* names of the operations enabled in this configuration (focus configurations use a subset)
          Terminal,      \* operations after which a behaviour ends (keeps exhaustive focus configurations small)
          StrSizes, Aboves

VARIABLES obj, last
vars == <<obj, last>>

BuildAcc(cls) == IF cls = "A" THEN {"gain", "label"} ELSE {"gain", "offset"}
TrigAcc(cls)  == IF cls = "A" THEN {"thr"} ELSE {"cnt"}
BuildKws == {{"gain"}, {"gain", "label"}, {"gain", "offset"}, {"gain", "label", "offset"}, {}}
TrigKws  == {{}, {"thr"}, {"cnt"}, {"thr", "cnt"}}

IsDet(i)  == obj[i].k \in {"str", "sta", "comb"}
RECURSIVE Flat(_)
RECURSIVE FlatSeq(_)
FlatSeq(s) == IF s = <<>> THEN <<>> ELSE Flat(Head(s)) \o FlatSeq(Tail(s))
Flat(i) == IF obj[i].k = "ant" THEN <<i>> ELSE FlatSeq(obj[i].items)
Range(s) == {s[n] : n \in 1..Len(s)}
Ants(i) == Range(Flat(i))

(* objects not contained in any other object: the ones a caller still holds by name *)
Contained == UNION {Range(obj[i].items) : i \in {j \in 1..Len(obj) : obj[j].k # "ant"}}
Roots == (1..Len(obj)) \ Contained
AnyAbove(S) == \E a \in S : obj[a].above
Room(n) == Len(obj) + n <= MaxObjs

Init == obj = <<>> /\ last = [op |-> "Init"]

Ant(above) == [k |-> "ant", hit |-> FALSE, above |-> above]

NewAnt(above) == /\ Room(1)
                 /\ obj' = Append(obj, Ant(above))
                 /\ last' = [op |-> "NewAnt", above |-> above, slot |-> Len(obj) + 1]

NewList(S) ==   \* a python list of loose antennas / lists the caller holds
    /\ Room(1) /\ S # <<>>
    /\ \A n \in 1..Len(S) : S[n] \in Roots /\ obj[S[n]].k \in {"ant", "list"}
    /\ \A n, m \in 1..Len(S) : n # m => S[n] # S[m]
    /\ obj' = Append(obj, [k |-> "list", items |-> S])
    /\ last' = [op |-> "NewList", items |-> S, slot |-> Len(obj) + 1]

(* a nested python list [[a], [b]] of two fresh antennas *)
NewNested == /\ Room(5)
             /\ LET b == Len(obj) IN
                obj' = obj \o <<Ant(FALSE), Ant(FALSE), [k |-> "list", items |-> <<b + 1>>], [k |-> "list", items |-> <<b + 2>>],
                                [k |-> "list", items |-> <<b + 3, b + 4>>]>>
             /\ last' = [op |-> "NewNested", slot |-> Len(obj) + 5]

(* a string of n antennas; with an antenna above the ice the constructor must refuse *)
NewStr(cls, n, above) ==
    /\ Room(n + 1)
    /\ IF above
       THEN /\ UNCHANGED obj
            /\ last' = [op |-> "NewStr", cls |-> cls, n |-> n, above |-> TRUE, res |-> "raises"]
       ELSE /\ obj' = obj \o [j \in 1..n |-> Ant(FALSE)] \o
                      <<[k |-> "str", cls |-> cls, items |-> [j \in 1..n |-> Len(obj) + j], bgot |-> "none", tgot |-> "none"]>>
            /\ last' = [op |-> "NewStr", cls |-> cls, n |-> n, above |-> FALSE, res |-> "ok", slot |-> Len(obj) + n + 1]

NewSta(c1, c2) ==   \* a station of two one-antenna strings
    /\ Room(5)
    /\ LET b == Len(obj) IN
       obj' = obj \o <<Ant(FALSE),
                       [k |-> "str", cls |-> c1, items |-> <<b + 1>>, bgot |-> "none", tgot |-> "none"],
                       Ant(FALSE),
                       [k |-> "str", cls |-> c2, items |-> <<b + 3>>, bgot |-> "none", tgot |-> "none"],
                       [k |-> "sta", items |-> <<b + 2, b + 4>>]>>
    /\ last' = [op |-> "NewSta", c1 |-> c1, c2 |-> c2, slot |-> Len(obj) + 5]

(* subsets of the CombinedDetector produced by i + j, as the code builds them *)
PlusItems(i, j) == CASE obj[i].k = "comb" /\ obj[j].k = "comb"        -> obj[i].items \o obj[j].items
                     [] obj[i].k = "comb"                              -> Append(obj[i].items, j)
                     [] obj[i].k \in {"str", "sta"}                     -> <<i, j>>          \* Detector.__add__ nests
                     [] obj[j].k = "comb"                              -> <<i>> \o obj[j].items   \* CombinedDetector.__radd__
                     [] OTHER                                          -> <<i, j>>
CanAdd(i, j) == /\ i \in Roots /\ j \in Roots /\ i # j
                /\ IsDet(i) \/ IsDet(j)
                /\ Ants(i) \cap Ants(j) = {}

Plus(i, j) ==
    /\ CanAdd(i, j) /\ Room(1)
    /\ IF AnyAbove(Ants(i) \cup Ants(j))
       THEN /\ UNCHANGED obj
            /\ last' = [op |-> "Plus", a |-> i, b |-> j, res |-> "raises"]
       ELSE /\ obj' = Append(obj, [k |-> "comb", items |-> PlusItems(i, j)])
            /\ last' = [op |-> "Plus", a |-> i, b |-> j, res |-> "ok", slot |-> Len(obj) + 1]

(* c += x on a CombinedDetector: in place; rejected operands must leave it unchanged *)
IPlus(i, j) ==
    /\ CanAdd(i, j) /\ obj[i].k = "comb"
    /\ LET items2 == IF obj[j].k = "comb" THEN obj[i].items \o obj[j].items ELSE Append(obj[i].items, j) IN
       IF AnyAbove(Ants(j))
       THEN /\ obj' = IF AsIsIAdd THEN [obj EXCEPT ![i].items = items2] ELSE obj
            /\ last' = [op |-> "IPlus", a |-> i, b |-> j, res |-> "raises"]
       ELSE /\ obj' = [obj EXCEPT ![i].items = items2]
            /\ last' = [op |-> "IPlus", a |-> i, b |-> j, res |-> "ok"]

(* sum([a, b, c]) = ((0 + a) + b) + c : two new combined detectors *)
Sum3(i, j, m) ==
    /\ CanAdd(i, j) /\ m \in Roots /\ m \notin {i, j} /\ Ants(m) \cap (Ants(i) \cup Ants(j)) = {}
    /\ IsDet(i) /\ Room(2)
    /\ ~AnyAbove(Ants(i) \cup Ants(j) \cup Ants(m))
    /\ LET first == PlusItems(i, j) IN
       /\ obj' = obj \o <<[k |-> "comb", items |-> first],
                          [k |-> "comb", items |-> IF obj[m].k = "comb" THEN first \o obj[m].items ELSE Append(first, m)]>>
       /\ last' = [op |-> "Sum3", a |-> i, b |-> j, c |-> m, slot |-> Len(obj) + 2]

Hit(a) == /\ obj[a].k = "ant" /\ ~obj[a].hit
          /\ obj' = [obj EXCEPT ![a].hit = TRUE]
          /\ last' = [op |-> "Hit", a |-> a]

(* clear(reset_noise): every antenna below i is cleared, and every one of them is told the same reset_noise *)
Clear(i, reset) == /\ IsDet(i)
            /\ obj' = [n \in 1..Len(obj) |-> IF n \in Ants(i) THEN [obj[n] EXCEPT !.hit = FALSE] ELSE obj[n]]
            /\ last' = [op |-> "Clear", a |-> i, reset |-> reset]

(* strings reached by a build call on i, and the strings a combined detector asks for their own trigger *)
RECURSIVE Strings(_)
Strings(i) == CASE obj[i].k = "str" -> {i}
                [] obj[i].k \in {"sta", "comb"} -> UNION {Strings(obj[i].items[n]) : n \in 1..Len(obj[i].items)}
                [] OTHER -> {}
Classes(i) == {obj[s].cls : s \in Strings(i)}
TrigSubs(i) == IF obj[i].k = "comb" THEN {obj[i].items[n] : n \in {m \in 1..Len(obj[i].items) : obj[obj[i].items[m]].k = "str"}}
               ELSE {}

Build(i, K) ==
    /\ IsDet(i) /\ Strings(i) # {}
    /\ Cardinality(Classes(i)) = 1 => \A c \in Classes(i) : K \subseteq BuildAcc(c)    \* identical subsets get all keywords
    /\ LET rebuilt == UNION {Ants(s2) : s2 \in Strings(i)} IN       \* antennas are constructed anew: not hit
       obj' = [n \in 1..Len(obj) |-> IF n \in Strings(i) THEN [obj[n] EXCEPT !.bgot = K \cap BuildAcc(obj[n].cls)]
                                      ELSE IF n \in rebuilt THEN [obj[n] EXCEPT !.hit = FALSE] ELSE obj[n]]
    /\ last' = [op |-> "Build", a |-> i, kw |-> K]

(* the trigger of a combined detector asks its subsets in order (nested combined detectors are asked in turn and
   do the same) and stops at the first that reports a trigger *)
RECURSIVE Units(_)
RECURSIVE UnitsSeq(_)
UnitsSeq(s) == IF s = <<>> THEN <<>> ELSE Units(Head(s)) \o UnitsSeq(Tail(s))
Units(i) == IF obj[i].k = "comb" THEN UnitsSeq(obj[i].items) ELSE <<i>>
RECURSIVE Combs(_)
Combs(i) == IF obj[i].k # "comb" THEN {}
            ELSE {i} \cup UNION {Combs(obj[i].items[n]) : n \in 1..Len(obj[i].items)}
(* identical trigger signatures among the subsets of one combined detector that have a trigger method:
   all keywords are passed on unfiltered, so they must all be acceptable *)
PassesAll(cb, K) == LET T == {obj[cb].items[n] : n \in {m \in 1..Len(obj[cb].items) : obj[obj[cb].items[m]].k \in {"str", "sta", "comb"}}} IN
                    ((\A t \in T : obj[t].k = "str") /\ Cardinality({obj[t].cls : t \in T}) = 1)
                        => \A t \in T : K \subseteq TrigAcc(obj[t].cls)

Triggered(i, mc, K) ==
    /\ IsDet(i)
    /\ obj[i].k # "comb" => K = {}
    /\ \A cb \in Combs(i) : PassesAll(cb, K)
    /\ LET res == \E a \in Ants(i) : obj[a].hit
           u == Units(i)
           asked == IF obj[i].k = "str" THEN {i}
                    ELSE IF obj[i].k # "comb" THEN {}
                    ELSE {u[n] : n \in {m \in 1..Len(u) :
                              /\ obj[u[m]].k = "str"
                              /\ \A q \in 1..(m - 1) : ~(\E a \in Ants(u[q]) : obj[a].hit)}}
       IN /\ obj' = [n \in 1..Len(obj) |-> IF n \in asked THEN [obj[n] EXCEPT !.tgot = K \cap TrigAcc(obj[n].cls)] ELSE obj[n]]
          /\ last' = [op |-> "Triggered", a |-> i, mc |-> mc, kw |-> K, val |-> res, asked |-> asked]

On(name) == name \in Ops /\ last.op \notin Terminal
Next == \/ On("NewAnt") /\ \E ab \in BOOLEAN : NewAnt(ab)
        \/ On("NewList") /\ \E i, j \in 1..Len(obj) : NewList(<<i, j>>) \/ NewList(<<i>>)
        \/ On("NewNested") /\ NewNested
        \/ On("NewStr") /\ \E c \in {"A", "B"}, n \in StrSizes, ab \in Aboves : NewStr(c, n, ab)
        \/ On("NewSta") /\ \E c1, c2 \in {"A", "B"} : NewSta(c1, c2)
        \/ On("Plus") /\ \E i, j \in 1..Len(obj) : Plus(i, j)
        \/ On("IPlus") /\ \E i, j \in 1..Len(obj) : IPlus(i, j)
        \/ On("Sum3") /\ \E i, j, m \in 1..Len(obj) : Sum3(i, j, m)
        \/ On("Hit") /\ \E a \in 1..Len(obj) : Hit(a)
        \/ On("Clear") /\ \E i \in 1..Len(obj), reset \in BOOLEAN : Clear(i, reset)
        \/ On("Build") /\ \E i \in 1..Len(obj), K \in BuildKws : Build(i, K)
        \/ On("Triggered") /\ \E i \in 1..Len(obj), mc \in BOOLEAN, K \in TrigKws : Triggered(i, mc, K)
Spec == Init /\ [][Next]_vars

(* ------------------------------ properties ------------------------------ *)
NoDup(s) == \A n, m \in 1..Len(s) : n # m => s[n] # s[m]
EachOnce == \A i \in 1..Len(obj) : obj[i].k # "ant" => NoDup(Flat(i))
PlusIsConcat == last.op = "Plus" /\ last.res = "ok" => Flat(last.slot) = Flat(last.a) \o Flat(last.b)
SumIsConcat  == last.op = "Sum3" => Flat(last.slot) = Flat(last.a) \o Flat(last.b) \o Flat(last.c)
NoAntennaAboveIce == \A i \in 1..Len(obj) : IsDet(i) => ~AnyAbove(Ants(i))         \* violated by the as-is `+=` (D15)
TriggeredIffAnyHit == last.op = "Triggered" => (last.val <=> \E a \in Ants(last.a) : obj[a].hit)
ClearAll == last.op = "Clear" => \A a \in Ants(last.a) : ~obj[a].hit
RejectedLeavesUnchanged == [][(last'.op \in {"NewStr", "Plus", "IPlus"} /\ last'.res = "raises") => obj' = obj]_vars
(* associativity of `+` in the flattened content: (a + b) + c and a + (b + c) have the same Flat -- checked on the
   operator PlusItems for all triples of disjoint roots *)
FlatItems(s) == FlatSeq(s)
=============================================================================
