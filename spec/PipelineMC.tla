---- MODULE PipelineMC ----
EXTENDS Pipeline
E(parts, t) == [parts |-> parts, thrown |-> t]
Kinds == {"in", "out", "light"}
EventsAll == {E(<<a>>, t) : a \in Kinds, t \in {1, 3}} \cup {E(<<a, b>>, 2) : a \in Kinds, b \in {"in", "out"}}
ScriptsAll == {<<a>> : a \in EventsAll} \cup {<<a, b>> : a \in EventsAll, b \in EventsAll}
              \cup {<<E(<<"in">>, 1), b, c>> : b \in EventsAll, c \in {E(<<"in", "out">>, 2), E(<<"light">>, 1)}}
====
