"""C04 -- Signals.tla: exhaustive small model + graph cover + simulation, replayed on pyrex.signals."""
import random
from vlib import tlc, core
from drivers.signals_drv import SignalsDriver

OPS = ['NewSignal', 'NewEmpty', 'NewFunction', 'Copy', 'RAdd0', 'Add', 'Mul', 'IMul', 'Div', 'IDiv', 'Shift',
       'WithTimes', 'PokeValues', 'MutateExt']
FINISH = dict(rule='behaviours of Signals.tla (graph cover of the level-3 state graph + seeded simulation) executed on '
                   'Signal/EmptySignal/FunctionSignal; after every step times, values, value_type of all objects, '
                   'all caller arrays and the alias partition are compared with the spec state')


def run(r):
    thorough = r.tier == 'thorough'
    drv = SignalsDriver()
    # 1. the property on the model, exhaustively within the level bound
    r.model_check('SignalsMC', 'Signals_thorough.cfg' if thorough else 'Signals_small.cfg', timeout=5400)
    r.exhaustive = True
    # 2. every edge of the (smaller) reachable graph executed on the real classes
    g = tlc.check('SignalsMC', 'Signals_graph.cfg', 'C04/graph', dump=True)
    behs, nn, ne, nc = tlc.graph_cover(g.dot, rng=random.Random(r.seed))
    r.extra['graph_cover'] = {'nodes': nn, 'edges': ne, 'edges_replayed': nc, 'behaviours': len(behs)}
    r.replay(drv, behs, 'Signals', 'graph')
    # 3. deeper seeded simulation with larger constants
    n = 4000 if thorough else 400
    s = tlc.simulate('SignalsMC', 'Signals_sim.cfg', 'C04/sim', num=n, depth=14, seed=r.seed + 1)
    if s.violated:
        r.model_check('SignalsMC', 'Signals_sim.cfg')   # report through the common path (will not terminate quickly)
    r.transitions += s.generated
    r.replay(drv, s.behaviours, 'Signals', 'simulate')
    # the same histories on a nanosecond-scale (dyadic) time unit: grid comparisons must not depend on the scale
    r.replay(None, s.behaviours, 'Signals', 'simulate (time unit 2^-30 s)', parallel=16, factory=SignalsDriver, factory_kw=dict(scale=2.0 ** -30))
    # 3b. focused on binary operations (different grids of equal length, all class pairs), on both time scales
    sa = tlc.simulate('SignalsMC', 'Signals_addfocus.cfg', 'C04/simadd', num=3000 if thorough else 500, depth=10, seed=r.seed + 4)
    if sa.violated:
        raise tlc.TLCError('simulation violates %s' % sa.violated)
    r.transitions += sa.generated
    r.replay(drv, sa.behaviours, 'Signals', 'simulate (addition focus)')
    r.replay(None, sa.behaviours, 'Signals', 'simulate (addition focus, time unit 2^-30 s)', parallel=16, factory=SignalsDriver,
             factory_kw=dict(scale=2.0 ** -30))
    # 3b. re-gridding focus: target grids touching the span at exactly one end sample, single-sample signals, shifted sources
    sg = tlc.simulate('SignalsMC', 'Signals_regrid.cfg', 'C04/simregrid', num=2400 if thorough else 480, depth=7, seed=r.seed + 5)
    if sg.violated:
        raise tlc.TLCError('simulation violates %s' % sg.violated)
    r.transitions += sg.generated
    r.replay(None, sg.behaviours, 'Signals', 'simulate (re-gridding focus)', parallel=16, factory=SignalsDriver)
    # 4. regression witness of D1 (as-is model: with_times keeps the caller's array): TLC must find the
    #    NoAlias counterexample, and the real code must not exhibit it
    w = r.model_check('SignalsMC', 'Signals_asis.cfg', expect_violation='NoAlias')
    r.replay(drv, [w.trace], 'Signals', 'asis-witness-D1')
    missing = [o for o in OPS if not r.actions_seen.get(o)]
    if missing:
        raise tlc.TLCError('vacuity guard: ops never replayed: %s' % missing)
    r.assumptions += ['times are dyadic (tick/2), values integers: IEEE arithmetic exact; comparisons abs<=1e-9',
                      'caller passes float64 arrays', 'resample (Fourier) not modelled']


def replay(r, path):
    obj, beh = core.load_replay(path)
    ok = r.replay_one(SignalsDriver(), beh, 'Signals', 'replay-file')
    print('replay %s: %s' % (path, 'no divergence' if ok else 'DIVERGENCE'))
    return 0 if ok else 1
