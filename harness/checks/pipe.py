"""PIPE -- Pipeline.tla (end-to-end composition), not a listed property; run by `bin/check PIPE` and as an
extra stage of the thorough tier of C10 and C12."""
import random
from vlib import tlc, core
from drivers.pipeline_drv import PipelineDriver

FINISH = dict(rule='behaviours of Pipeline.tla executed end to end on real components')


def stage(r, num):
    import logging
    import warnings
    logging.disable(logging.WARNING)
    warnings.filterwarnings('ignore')
    r.model_check('PipelineMC', 'Pipeline.cfg')
    s = tlc.simulate('PipelineMC', 'Pipeline.cfg', 'PIPE/sim', num=num, depth=14, seed=r.seed + 99)
    if s.violated:
        raise tlc.TLCError('Pipeline simulation violates %s' % s.violated)
    r.transitions += s.generated
    done = [b for b in s.behaviours if b[-1][1]['phase'] == 'done']
    r.extra['pipeline_runs_completed'] = len(done)
    r.replay(None, s.behaviours, 'Pipeline', 'simulate', parallel=16, factory=PipelineDriver)


def run(r):
    stage(r, 400 if r.tier == 'thorough' else 64)


def replay(r, path):
    obj, beh = core.load_replay(path)
    ok = r.replay_one(PipelineDriver(), beh, 'Pipeline', 'replay-file')
    print('replay %s: %s' % (path, 'no divergence' if ok else 'DIVERGENCE'))
    return 0 if ok else 1
