"""C07 (relational core) -- AskaryanRel.tla: input transformations with exactly predicted effect, replayed on ZHS / AVZ / ARZ."""
from vlib import tlc, core
from drivers.askaryan_drv import AskaryanDriver

FINISH = dict(rule='behaviours of AskaryanRel.tla (ScaleR, FlipAngle, ShiftBoth, ShiftT0, ScaleE, Zero, AngleScan) replayed on the real '
                   'ZHS, AVZ and ARZ models on dyadic grids; at every state the field must relate to the base field as the bookkeeping '
                   'predicts (1e-9 of the peak), have the length of the grid and be finite')


def run(r):
    import warnings
    warnings.filterwarnings('ignore')
    thorough = r.tier == 'thorough'
    r.model_check('AskaryanRelMC', 'AskaryanRel_thorough.cfg' if thorough else 'AskaryanRel.cfg', timeout=1500)
    r.exhaustive = True
    from vlib import apalache
    apalache.inductive(r, 'AskaryanRelInd')      # the same algebra without bounds: Consistent is an inductive invariant
    for k, depth in enumerate((6, 9) if thorough else (6,)):
        s = tlc.simulate('AskaryanRelMC', 'AskaryanRel_sim.cfg', 'C07/sim%d' % k,
                         num=(6000 if thorough else 1200), depth=depth, seed=r.seed + 7 + k)
        r.transitions += s.generated
        r.replay(None, s.behaviours, 'AskaryanRel', 'simulate depth %d' % depth, parallel=16, factory=AskaryanDriver)
    for op in ('ScaleR', 'FlipAngle', 'ShiftBoth', 'ShiftT0', 'ScaleE', 'Zero', 'AngleScan', 'HalveFraction'):
        if not r.actions_seen.get(op):
            raise tlc.TLCError('vacuity guard: op %s never replayed' % op)
    r.assumptions += ['grids with dyadic step 2^-31 s and 2^-30 s, whole-sample offsets (exact float arithmetic); uniform ice n = 1.78',
                      'angles theta_c + 0.02 a on a lattice plus 0, pi/2, pi; energies 1e9..1e11 GeV; three EM/hadronic splits',
                      'numerical clauses (monotone fall-off between lattice points, ARZ off-cone energy dependence) are not decided']


def replay(r, path):
    obj, beh = core.load_replay(path)
    ok = r.replay_one(AskaryanDriver(), beh, 'AskaryanRel', obj.get('origin', 'replay'))
    print('replay %s: %s' % (path, 'no divergence' if ok else 'DIVERGENCE'))
    return 0 if ok else 1
