"""C06 -- FuncSignal.tla (lazy values of function-backed signals) + LazyObj.tla (ray tracers / paths)."""
import random
from vlib import tlc, core
from drivers.funcsignal_drv import FuncSignalDriver

OPS = ['New', 'Read', 'Shift', 'IMul', 'IDiv', 'Filter', 'SetBuffers', 'SetBuffersFail', 'Resample', 'AssignTimes', 'AugTimes', 'Copy', 'Mul',
       'WithTimes', 'Add']
FINISH = dict(rule='behaviours of FuncSignal.tla (all interleavings of value reads with shift/scale/filter/set_buffers/'
                   'resample/with_times/add/copy/times assignment) executed on FunctionSignal and on FullThermalNoise and '
                   'AskaryanSignal shadows; each read compared with the spec value and with a fresh copy')


def run(r):
    import logging
    logging.disable(logging.WARNING)
    thorough = r.tier == 'thorough'
    drv = FuncSignalDriver()
    r.model_check('FuncSignalMC', 'FuncSignal_small.cfg')
    r.exhaustive = True
    g = tlc.check('FuncSignalMC', 'FuncSignal_graph.cfg', 'C06/graph', dump=True)
    behs, nn, ne, nc = tlc.graph_cover(g.dot, rng=random.Random(r.seed))
    r.extra['graph_cover'] = {'nodes': nn, 'edges': ne, 'edges_replayed': nc, 'behaviours': len(behs)}
    r.replay(drv, behs, 'FuncSignal', 'graph', parallel=16, factory=FuncSignalDriver)
    n = 6000 if thorough else 400
    s = tlc.simulate('FuncSignalMC', 'FuncSignal_sim.cfg', 'C06/sim', num=n, depth=16, seed=r.seed + 6)
    if s.violated:
        raise tlc.TLCError('simulation config violates %s' % s.violated)
    r.transitions += s.generated
    r.replay(drv, s.behaviours, 'FuncSignal', 'simulate', parallel=16, factory=FuncSignalDriver)
    # focused multi-object histories (aliasing between a sum and its operands shows only when the sum is mutated)
    s2 = tlc.simulate('FuncSignalMC', 'FuncSignal_alias.cfg', 'C06/sim2', num=3000 if thorough else 500, depth=9, seed=r.seed + 7)
    if s2.violated:
        raise tlc.TLCError('simulation config violates %s' % s2.violated)
    r.transitions += s2.generated
    r.replay(drv, s2.behaviours, 'FuncSignal', 'simulate (aliasing focus)', parallel=16, factory=FuncSignalDriver)
    # windows cut from the own grid that share an edge with it, followed by filters (the buffers with_times must set)
    s3 = tlc.simulate('FuncSignalMC', 'FuncSignal_edge.cfg', 'C06/sim3', num=1500 if thorough else 320, depth=7, seed=r.seed + 8)
    if s3.violated:
        raise tlc.TLCError('simulation config violates %s' % s3.violated)
    r.transitions += s3.generated
    r.replay(drv, s3.behaviours, 'FuncSignal', 'simulate (edge-sharing windows)', parallel=16, factory=FuncSignalDriver)
    # D2 regression: as-is model (set_buffers keeps the cache) must give the NoStale counterexample,
    # and the repaired code must not follow it
    w = r.model_check('FuncSignalMC', 'FuncSignal_asis.cfg', expect_violation='NoStale')
    fixed = [(l, dict(s_, last=_fresh_last(s_['last']))) for l, s_ in w.trace]
    r.replay(drv, [fixed], 'FuncSignal', 'asis-witness-D2')
    # ---- ray tracers and ray paths (LazyObj.tla) ----
    from drivers.lazy_drv import LazyDriver
    import warnings
    warnings.filterwarnings('ignore')
    for cfg in ('LazyObj_tracer.cfg', 'LazyObj_path.cfg', 'LazyObj_upath.cfg'):
        r.model_check('LazyObjMC', cfg)
    nl = 1500 if thorough else 200
    for cfg, target, kinds in (('LazyObj_tracer.cfg', 'tracer', ['specialized', 'uniform', 'layered', 'basic']),
                               ('LazyObj_path.cfg', 'path', ['specialized', 'basic']),
                               ('LazyObj_upath.cfg', 'path', ['uniform'])):
        sl = tlc.simulate('LazyObjMC', cfg, 'C06/lazy', num=nl, depth=12, seed=r.seed + 66)
        r.transitions += sl.generated
        for kind in kinds:
            behs = sl.behaviours if kind not in ('basic', 'layered') else sl.behaviours[:max(32, nl // 5)]
            r.replay(None, behs, 'LazyObj', '%s %s' % (kind, target), parallel=16, factory=LazyDriver,
                     factory_kw=dict(kind=kind, target=target))
    # every edge of the small LazyObj graphs (read - assign / augmented assign - read) on real tracers and paths
    for cfg, target, kinds in (('LazyObj_gtracer.cfg', 'tracer', ['specialized', 'uniform']), ('LazyObj_gupath.cfg', 'path', ['uniform'])):
        gl = tlc.check('LazyObjMC', cfg, 'C06/lgraph', dump=True)
        lb, nn, ne, nc = tlc.graph_cover(gl.dot, rng=random.Random(r.seed))
        r.extra['lazyobj_graph_' + target] = {'nodes': nn, 'edges': ne, 'behaviours': len(lb)}
        for kind in kinds:
            # the eagerly read shadow object only in the simulations above and, on the graphs, for the default tracer (cost)
            r.replay(None, lb, 'LazyObj', '%s %s' % (kind, target), parallel=16, factory=LazyDriver,
                     factory_kw=dict(kind=kind, target=target, eager=thorough))
    wl = r.model_check('LazyObjMC', 'LazyObj_asis.cfg', expect_violation='NoStale')
    r.extra['lazyobj_identity_skip_witness'] = [core.tlaval.to_json(s_['last']) for _, s_ in wl.trace]
    missing = [o for o in OPS + ['Assign', 'AugAssign'] if not r.actions_seen.get(o)]
    if missing:
        raise tlc.TLCError('vacuity guard: ops never replayed: %s' % missing)
    r.assumptions += ['filters are integer-sample delays with integer gains (exact shift); |delay| <= padded length',
                      'dyadic grids; resample only to grids that keep delays integral',
                      'fresh-object oracle = obj.copy() (re-evaluates the definition)']


def _fresh_last(last):
    # in the as-is trace Read returns the stale cache; the property demands the eager value
    if last.get('op') == 'Read':
        d = dict(last)
        d['res'] = last['fresh']
        return d
    return last


def replay(r, path):
    import logging
    logging.disable(logging.WARNING)
    obj, beh = core.load_replay(path)
    if obj.get('module') == 'LazyObj':
        from drivers.lazy_drv import LazyDriver
        kind, target = obj['origin'].split()
        ok = r.replay_one(LazyDriver(kind, target), beh, 'LazyObj', obj['origin'])
        print('replay %s: %s' % (path, 'no divergence' if ok else 'DIVERGENCE'))
        return 0 if ok else 1
    ok = r.replay_one(FuncSignalDriver(), beh, 'FuncSignal', 'replay-file')
    print('replay %s: %s' % (path, 'no divergence' if ok else 'DIVERGENCE'))
    return 0 if ok else 1
