"""C17 (relational core) -- NoiseRel.tla: thermal noise as a function of absolute time fixed by its published basis."""
from vlib import tlc, core
from drivers.noise_drv import NoiseDriver

FINISH = dict(rule='behaviours of NoiseRel.tla (WithTimes, Shift, Copy, Rebuild, Fresh) replayed on FullThermalNoise and '
                   'FFTThermalNoise; after every step every sample of every object must equal the sum of the cosines published '
                   'by its basis at (tick - delay) (FFT: at construction-lattice samples); published frequencies in band, rms as '
                   'requested / sqrt(k T R bandwidth), unit amplitudes give the rms over one FFT period, independent objects differ')


def run(r):
    import logging
    import warnings
    logging.disable(logging.WARNING)
    warnings.filterwarnings('ignore')
    thorough = r.tier == 'thorough'
    r.model_check('NoiseRelMC', 'NoiseRel_thorough.cfg' if thorough else 'NoiseRel.cfg', timeout=3000)
    r.exhaustive = True
    s = tlc.simulate('NoiseRelMC', 'NoiseRel_sim.cfg', 'C17/sim', num=(12000 if thorough else 2400), depth=(9 if thorough else 6),
                     seed=r.seed + 17)
    r.transitions += s.generated
    r.replay(None, s.behaviours, 'NoiseRel', 'simulate', parallel=16, factory=NoiseDriver)
    for op in ('WithTimes', 'Shift', 'Copy', 'Rebuild', 'Fresh'):
        if not r.actions_seen.get(op):
            raise tlc.TLCError('vacuity guard: op %s never replayed' % op)
    r.assumptions += ['construction grid of 16 / 33 samples of step 2^-30 s; windows on whole and half samples, strides 1/2, 1, 3/2, 2 samples, '
                      'up to 50000 samples away and several periods long',
                      'six bands (inside, touching zero, through Nyquist, above Nyquist, between FFT bins, Nyquist only)',
                      'statistical clauses (default Rayleigh amplitudes give the rms on average) are not decided']


def replay(r, path):
    obj, beh = core.load_replay(path)
    ok = r.replay_one(NoiseDriver(), beh, 'NoiseRel', obj.get('origin', 'replay'))
    print('replay %s: %s' % (path, 'no divergence' if ok else 'DIVERGENCE'))
    return 0 if ok else 1
