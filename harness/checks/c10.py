"""C10 -- Kernel.tla: (i) scenarios replayed on scripted components, (ii) recorded runs of the real kernel
on every shipped tracer / ice / signal model / generator validated by TLC against TraceKernel.tla."""
import itertools
import json
import multiprocessing as mp
import os
import random
from vlib import tlc, core, tracecheck
from drivers.kernel_drv import KernelDriver

DEF = dict(p=0, a=0, s=0, n=0, kind="", model=False, propagated=False, grid_ok=False, nkeys=0, paths=[], pols=[],
           thrown=0, tform="", tglobal=False, textra=False, same_event=False, what="")
TRACER_ICE = [('specialized', 'antarctic'), ('specialized', 'arasim'), ('specialized', 'greenland'),
              ('basic', 'antarctic'), ('uniform', 'uniform'), ('layered', 'layered_uniform')]
MODELS = ['arz', 'avz', 'zhs']
GENS = ['list', 'cylindrical', 'rectangular', 'file']
FINISH = dict(rule='(i) TLC behaviours of Kernel.tla (scenario = answers of the components) executed on the real '
                   'EventKernel.event with scripted components, every component call compared; (ii) real runs of the kernel '
                   'over shipped tracers x ice models x Askaryan models x generators x settings recorded by proxies and '
                   'validated event by event by TLC (TraceKernel.tla)')


def combos(tier, seed):
    rng = random.Random(seed)
    out = []
    settings = list(itertools.product([40, None, 10], [None, 0.5, (0.5, 0.3)], [0.1, None], [True, False], ['none', 'func', 'dict']))
    k = 0
    for (tr, ice) in TRACER_ICE:
        for model in MODELS:
            for gen in GENS:
                if tier != 'thorough':
                    # quick: list generator for every tracer/model, the other generators once per tracer
                    if gen != 'list' and MODELS.index(model) != (GENS.index(gen) + TRACER_ICE.index((tr, ice))) % 3:
                        continue
                    if tr == 'basic' and gen != 'list':
                        continue
                reps = 2 if tier == 'thorough' else 1
                for _ in range(reps):
                    off, wmin, interp, writer, trig = settings[(k * 7 + rng.randrange(len(settings))) % len(settings)]
                    k += 1
                    if gen == 'list' and _ == 0:
                        off, wmin = 40, (0.5 if k % 2 else (0.5, 0.3))     # steer: off-cone and weight cuts active
                    out.append(dict(tracer=tr, ice=ice, model=model, gen=gen, writer=writer, trig=trig, offcone=off,
                                    wmin=wmin, interp=interp))
    return out


def _record(args):
    import logging
    import warnings
    logging.disable(logging.WARNING)
    warnings.filterwarnings('ignore')
    from drivers.kernel_rec import record_events
    combo, seed, workdir = args
    try:
        return record_events(combo, seed, workdir)
    except Exception as ex:       # the harness itself (or component construction) failed
        import traceback
        return [{'sc': None, 'events': [], 'combo': combo, 'event_no': -1, 'harness_error': traceback.format_exc()[-1500:]}]


def run(r):
    import logging
    logging.disable(logging.WARNING)
    thorough = r.tier == 'thorough'
    # the property on the model, every scenario of the small configuration
    r.model_check('KernelMC', 'Kernel_full.cfg' if thorough else 'Kernel_small.cfg')
    r.exhaustive = True
    # (i) spec -> code on scripted components
    s = tlc.simulate('KernelMC', 'Kernel_full.cfg' if thorough else 'Kernel_small.cfg', 'C10/sim', num=30000 if thorough else 3000, depth=60, seed=r.seed + 10)
    if s.violated:
        raise tlc.TLCError('simulation violates %s' % s.violated)
    r.transitions += s.generated
    r.replay(KernelDriver(), s.behaviours, 'Kernel', 'simulate (scripted components)', parallel=16, factory=KernelDriver)
    for op in ('SkipParticle', 'Tracer', 'Solution', 'EvalTriggers', 'WriterAdd', 'Return'):
        if not r.actions_seen.get(op):
            raise tlc.TLCError('vacuity guard: op %s never replayed' % op)
    # (ii) code -> spec on the shipped components
    work = os.path.join(tlc.WORK, 'C10', 'rec')
    cs = combos(r.tier, r.seed)
    with mp.get_context('fork').Pool(16) as pool:
        results = pool.map(_record, [(c, r.seed * 1000 + i, work) for i, c in enumerate(cs)], chunksize=1)
    traces = [t for res in results for t in res]
    bad_harness = [t for t in traces if t.get('harness_error')]
    if bad_harness:
        raise tlc.TLCError('recording harness failed for %s:\n%s' % (bad_harness[0]['combo'], bad_harness[0]['harness_error']))
    batch = [{'sc': t['sc'], 'events': [_pad(e) for e in t['events']]} for t in traces]
    verdicts, res = tracecheck.validate('TraceKernel', 'TraceKernel.cfg', batch, 'C10/trace')
    r.states += res.distinct
    r.transitions += res.generated
    cover = {}
    for t, (reached, needed) in zip(traces, verdicts):
        key = '%s/%s' % (t['combo']['tracer'], t['combo']['ice'])
        cv = cover.setdefault(key, {'NoPath': 0, 'Pulse': 0, 'Empty': 0, 'Skip': 0, 'traces': 0})
        cv['traces'] += 1
        for e in t['events']:
            if e['ev'] == 'Tracer' and e['n'] == 0:
                cv['NoPath'] += 1
            if e['ev'] == 'Solution':
                cv['Pulse' if e.get('kind') == 'pulse' else 'Empty'] += 1
        cv['Skip'] += sum(1 for w in t['sc']['w'] if (w['forced'] == 1 or w['surv'] == 2 or w['inter'] == 2))
        if reached == needed:
            r.traces += 1
            continue
        nxt = t['events'][reached] if reached < len(t['events']) else {'ev': '(end of trace: model not terminated)'}
        path = r.write_replay({'kind': 'trace', 'combo': _js(t['combo']), 'event_no': t['event_no'], 'scenario': t['sc'],
                               'events': t['events'], 'matched': reached, 'rejected_event': nxt})
        r.violation(path, 'recorded run rejected by TraceKernel at event %d of %d: %s  [combo %s]' % (
            reached + 1, len(t['events']), json.dumps(nxt)[:300], _js(t['combo'])))
    r.extra['recorded_combinations'] = len(cs)
    r.extra['per_tracer_branch_coverage'] = cover
    if len(r.samples) < 4 and traces:
        r.samples.append({'origin': 'recorded run', 'combo': _js(traces[0]['combo']), 'events': traces[0]['events'][:8]})
    for key, cv in cover.items():
        for br in ('Pulse', 'Empty'):
            if cv[br] == 0 and not r.violations:
                raise tlc.TLCError('per-combination vacuity guard: %s never took branch %s' % (key, br))
    # end-to-end composition (Pipeline.tla): generator -> kernel -> antennas -> writer -> file -> reader -> file generator -> kernel
    from checks import pipe
    pipe.stage(r, 400 if thorough else 48)
    # whole-scene symmetries (SceneRel.tla): quarter turns / horizontal shifts of event + detector, antenna and particle order
    from checks import scene
    scene.stage(r, 480 if thorough else 48, 8 if thorough else 5)
    r.assumptions += ['scenario of a recorded run is derived from the observation (solutions reported by the real tracer, '
                      'off-cone computed from public path attributes)',
                      'physical correctness of signals is examined in C01 / C03 / C07, not here']


def _pad(e):
    d = dict(DEF)
    d['ev'] = e['ev']
    for k in DEF:
        if e.get(k) is not None:
            d[k] = e[k]
    return d


def _js(c):
    return {k: (list(v) if isinstance(v, tuple) else v) for k, v in c.items()}


def replay(r, path):
    obj = json.load(open(path))
    if obj.get('kind') == 'trace':
        combo = dict(obj['combo'])
        if isinstance(combo.get('wmin'), list):
            combo['wmin'] = tuple(combo['wmin'])
        import logging
        import warnings
        logging.disable(logging.WARNING)
        warnings.filterwarnings('ignore')
        print('re-recording combination %s' % combo)
        bad = 0
        for seed in range(3):
            res = _record((combo, seed, os.path.join(tlc.WORK, 'C10', 'rec')))
            batch = [{'sc': t['sc'], 'events': [_pad(e) for e in t['events']]} for t in res]
            verdicts, _ = tracecheck.validate('TraceKernel', 'TraceKernel.cfg', batch, 'C10/trace')
            bad += sum(1 for a, b in verdicts if a != b)
        print('replay %s: %s' % (path, 'no divergence' if not bad else 'DIVERGENCE (%d traces rejected)' % bad))
        return 1 if bad else 0
    obj, beh = core.load_replay(path)
    ok = r.replay_one(KernelDriver(), beh, 'Kernel', 'replay-file')
    print('replay %s: %s' % (path, 'no divergence' if ok else 'DIVERGENCE'))
    return 0 if ok else 1
