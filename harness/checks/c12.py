"""C12 -- reader access paths, append sessions, FileGenerator (H5Store.tla reader part), on real files."""
import random
from vlib import tlc, core
from drivers.h5_drv import H5Driver

FINISH = dict(rule='behaviours of H5Store.tla (adds, rejected adds, close / append sessions) executed on HDF5Writer; after '
                   'every step the file is read through every chunk size and a seeded sample (thorough: all) of the '
                   'index / slice access paths of the model, and after every close through FileGenerator over 1 and 2 '
                   'files and several chunk sizes; all must agree with the accepted adds')


def run(r):
    thorough = r.tier == 'thorough'
    # the property on the model: all access paths of every reachable file of the small configuration
    r.model_check('H5StoreMC', 'H5Store_c12.cfg', dump=thorough)
    r.exhaustive = True
    kw = dict(level='sample', tag='C12', generator=True, seed=r.seed)
    if thorough:
        g = r.tlc_last
        behs, nn, ne, nc = tlc.graph_cover(g.dot, rng=random.Random(r.seed))
        r.extra['graph_cover'] = {'nodes': nn, 'edges': ne, 'edges_replayed': nc, 'behaviours': len(behs)}
        r.replay(None, behs, 'H5Store', 'graph(c12), all access paths', parallel=16, factory=H5Driver,
                 factory_kw=dict(level='full', tag='C12', generator=True, seed=r.seed))
    n = 2400 if thorough else 90
    s = tlc.simulate('H5StoreMC', 'H5Store_c12sim.cfg', 'C12/sim', num=n, depth=8, seed=r.seed + 12)
    if s.violated:
        raise tlc.TLCError('simulation config violates %s' % s.violated)
    r.transitions += s.generated
    r.replay(None, s.behaviours, 'H5Store', 'simulate', parallel=16, factory=H5Driver, factory_kw=kw)
    # regression witnesses: TLC regenerates the counterexamples of the as-is reader (D3 stepped slices,
    # D4 negative slice bounds); the repaired code must read them correctly on all access paths
    full = H5Driver(level='full' if thorough else 'sample', tag='C12w', generator=True, seed=r.seed)
    for cfg, inv, fid in (('H5Store_asis_d3.cfg', 'SliceAgree', 'D3'), ('H5Store_asis_d4.cfg', 'SliceAgree', 'D4')):
        w = r.model_check('H5StoreMC', cfg, expect_violation=inv)
        r.replay(full, [w.trace], 'H5Store', 'asis-witness-' + fid)
    if thorough:
        from checks import pipe
        pipe.stage(r, 300)
    apalache_iterpos(r)
    for op in ('Add', 'Close', 'Reopen'):
        if not r.actions_seen.get(op):
            raise tlc.TLCError('vacuity guard: op %s never replayed' % op)
    r.assumptions += ['access paths: slice_range 1..n+1, indices -n..n-1, slices with None/negative bounds and steps 1..n',
                      'FileGenerator count clause: non-decreasing and equal to the file total after each file',
                      'files without any particle table are outside the domain (reader needs total_thrown)']


def apalache_iterpos(r):
    """unbounded part: the iterator position arithmetic as an inductive invariant (Apalache, symbolic N/Start/Stop/Step/SR)"""
    import os
    import subprocess
    import time
    spec = os.path.join(tlc.SPEC, 'apalache', 'IterPos.tla')
    out = os.path.join(tlc.WORK, 'C12', 'apalache')
    res = {}
    for name, args in (('Init => IndInv', ['--init=Init', '--length=0']), ('IndInv /\\ Next => IndInv\'', ['--init=IndInit', '--length=1'])):
        t0 = time.time()
        p = subprocess.run(['apalache-mc', 'check', '--cinit=CInitAny', '--inv=IndInv', '--out-dir=' + out] + args + [spec],
                           stdout=subprocess.PIPE, stderr=subprocess.STDOUT, text=True, timeout=900)
        ok = 'The outcome is: NoError' in p.stdout
        res[name] = {'ok': ok, 'wall_s': round(time.time() - t0, 1)}
        if not ok:
            if 'The outcome is: Error' in p.stdout:
                path = r.write_replay({'kind': 'apalache', 'obligation': name, 'output': p.stdout[-3000:]})
                r.violation(path, 'Apalache: inductive invariant of IterPos.tla fails (%s)' % name)
            else:
                raise tlc.TLCError('apalache-mc failed:\n' + p.stdout[-2000:])
    r.extra['apalache_inductive_invariant_IterPos'] = res


def replay(r, path):
    obj, beh = core.load_replay(path)
    ok = r.replay_one(H5Driver(level='full', tag='C12', generator=True), beh, 'H5Store', 'replay-file')
    print('replay %s: %s' % (path, 'no divergence' if ok else 'DIVERGENCE'))
    return 0 if ok else 1
