"""C16 -- IceDispatch.tla: range / layer / shape dispatch of the ice models."""
import random
from vlib import tlc, core
from drivers.ice_drv import IceDriver

FINISH = dict(rule='every case of IceDispatch.tla (depth lattice containing every bound and both neighbours x valid ranges; layer '
                   'stacks; argument shape table) evaluated on AntarcticIce, ArasimIce, GreenlandIce, UniformIce (sentinel outside '
                   'indices) and LayeredIce: region, scalar/array agreement, contains, layer lookup, attenuation shapes and entries')


def run(r):
    g = r.model_check('IceDispatchMC', 'IceDispatch.cfg', dump=True)
    r.exhaustive = True
    behs, nn, ne, nc = tlc.graph_cover(g.dot, rng=random.Random(r.seed))
    r.replay(IceDriver(), behs, 'IceDispatch', 'all cases')
    if not r.actions_seen.get('Dispatch'):
        raise tlc.TLCError('vacuity guard: no case replayed')
    r.assumptions += ['NOT decided: monotonicity of n(z), depth_with_index as inverse, gradient as derivative (numerical)']


def replay(r, path):
    obj, beh = core.load_replay(path)
    ok = r.replay_one(IceDriver(), beh, 'IceDispatch', 'replay-file')
    print('replay %s: %s' % (path, 'no divergence' if ok else 'DIVERGENCE'))
    return 0 if ok else 1
