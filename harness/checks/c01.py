"""C01 (relational core) -- RayRel.tla: scaling law of exponential ice composed with the endpoint group; per-solution clauses."""
from vlib import tlc, core
from drivers.rayrel_drv import RayRelDriver

COMBOS = [('antarctic', 'specialized'), ('greenland', 'specialized'), ('custom', 'specialized'), ('antarctic', 'basic')]
FINISH = dict(rule='behaviours of RayRel.tla (Swap, Shift, Turn, ScaleUp, ScaleDown) replayed on the analytic tracer in three '
                   'exponential ice profiles and on the numerical tracer: solutions must be the predicted image of the base solutions '
                   '(lengths and times x 2^e, directions turned / exchanged); every solution: n sin(theta) conserved, unit in-plane '
                   'directions, first never turns over / second does, straight-line and index bounds; analytic = numerical tracer')


def run(r):
    import logging
    import warnings
    logging.disable(logging.WARNING)
    warnings.filterwarnings('ignore')
    thorough = r.tier == 'thorough'
    r.model_check('RayRelMC', 'RayRel_thorough.cfg' if thorough else 'RayRel.cfg')
    r.exhaustive = True
    if thorough:
        from vlib import apalache
        apalache.inductive(r, 'RayRelInd', timeout=1800)    # the endpoint group without bounds (any endpoints, any vectors, any length)
    s = tlc.simulate('RayRelMC', 'RayRel_sim.cfg', 'C01/sim', num=(3200 if thorough else 960), depth=(9 if thorough else 6), seed=r.seed + 1)
    r.transitions += s.generated
    for kind, tracer in COMBOS:
        behs = s.behaviours if tracer == 'specialized' else s.behaviours[:(160 if thorough else 32)]
        r.replay(None, behs, 'RayRel', '%s/%s' % (kind, tracer), parallel=16, factory=RayRelDriver, factory_kw=dict(kind=kind, tracer=tracer))
    for op in ('Swap', 'Shift', 'Turn', 'ScaleUp', 'ScaleDown', 'Stretch'):
        if not r.actions_seen.get(op):
            raise tlc.TLCError('vacuity guard: op %s never replayed' % op)
    r.assumptions += ['ten base endpoint pairs (shallow, deep, vertical, equal depth, far shallow, nearly vertical), scale factors 1/4 .. 4',
                      'that the reported ray, integrated numerically from the source, arrives at the receiver and that length / time '
                      'equal the line integrals is not decided (numerical); the relations above are necessary conditions of it']


def replay(r, path):
    obj, beh = core.load_replay(path)
    kind, _, tracer = obj.get('origin', 'antarctic/specialized').partition('/')
    ok = r.replay_one(RayRelDriver(kind if kind in ('antarctic', 'greenland', 'custom') else 'antarctic', tracer or 'specialized'), beh, 'RayRel',
                      obj.get('origin', 'replay'))
    print('replay %s: %s' % (path, 'no divergence' if ok else 'DIVERGENCE'))
    return 0 if ok else 1
