"""C19 -- Detector.tla: composition, flattening, triggers, clear, keyword dispatch, above-ice rejection."""
import random
from vlib import tlc, core
from drivers.detector_drv import DetectorDriver

OPS = ['NewAnt', 'NewList', 'NewStr', 'NewSta', 'Plus', 'IPlus', 'Sum3', 'Hit', 'Clear', 'Build', 'Triggered']
FINISH = dict(rule='behaviours of Detector.tla (strings, stations, loose antennas, (nested) antenna lists combined by +, += and '
                   'sum; hits, clear, build / trigger calls with keyword sets; antennas above the ice) executed on Detector '
                   'subclasses that record the keywords they receive; after every step every detector is iterated, measured '
                   'and indexed and compared with the flattening of the spec')


def run(r):
    import logging
    logging.disable(logging.WARNING)
    thorough = r.tier == 'thorough'
    r.model_check('DetectorMC', 'Detector_thorough.cfg' if thorough else 'Detector_small.cfg')
    r.exhaustive = True
    g = tlc.check('DetectorMC', 'Detector_graph.cfg', 'C19/graph', dump=True)
    behs, nn, ne, nc = tlc.graph_cover(g.dot, rng=random.Random(r.seed))
    r.extra['graph_cover'] = {'nodes': nn, 'edges': ne, 'edges_replayed': nc, 'behaviours': len(behs)}
    r.replay(None, behs, 'Detector', 'graph', parallel=16, factory=DetectorDriver)
    s = tlc.simulate('DetectorMC', 'Detector_sim.cfg', 'C19/sim', num=8000 if thorough else 1200, depth=16, seed=r.seed + 19)
    if s.violated:
        raise tlc.TLCError('simulation violates %s' % s.violated)
    r.transitions += s.generated
    r.replay(None, s.behaviours, 'Detector', 'simulate', parallel=16, factory=DetectorDriver)
    # D15 regression: as-is `+=` (append before the position test) gives the NoAntennaAboveIce counterexample
    w = r.model_check('DetectorMC', 'Detector_asis.cfg', expect_violation='NoAntennaAboveIce')
    fixed = list(w.trace[:-1])
    # under the repaired semantics the rejected += leaves the detector as it was
    lbl, st = w.trace[-1]
    st2 = dict(st)
    st2['obj'] = w.trace[-2][1]['obj']
    fixed.append((lbl, st2))
    r.replay(DetectorDriver(), [fixed], 'Detector', 'asis-witness-D15')
    missing = [o for o in OPS if not r.actions_seen.get(o)]
    if missing:
        raise tlc.TLCError('vacuity guard: ops never replayed: %s' % missing)
    r.assumptions += ['antennas are noiseless (Monte-Carlo truth = hit); operands of + are disjoint detectors',
                      'keyword sets exclude the combinations the code documents as errors (identical subsets given a keyword none accepts)']


def replay(r, path):
    import logging
    logging.disable(logging.WARNING)
    obj, beh = core.load_replay(path)
    ok = r.replay_one(DetectorDriver(), beh, 'Detector', 'replay-file')
    print('replay %s: %s' % (path, 'no divergence' if ok else 'DIVERGENCE'))
    return 0 if ok else 1
