"""C19 -- Detector.tla: composition, flattening, triggers, clear, keyword dispatch, above-ice rejection."""
import random
from vlib import tlc, core
from drivers.detector_drv import DetectorDriver

OPS = ['NewAnt', 'NewList', 'NewNested', 'NewStr', 'NewSta', 'Plus', 'IPlus', 'Sum3', 'Hit', 'Clear', 'Build', 'Triggered']
FINISH = dict(rule='behaviours of Detector.tla (strings, stations, loose antennas, (nested) antenna lists combined by +, += and '
                   'sum; hits, clear, build / trigger calls with keyword sets; antennas above the ice) executed on Detector '
                   'subclasses that record the keywords they receive; after every step every detector is iterated, measured '
                   'and indexed and compared with the flattening of the spec')


def run(r):
    import logging
    logging.disable(logging.WARNING)
    thorough = r.tier == 'thorough'
    r.model_check('DetectorMC', 'Detector_thorough.cfg' if thorough else 'Detector_small.cfg')
    r.exhaustive = True
    g = tlc.check('DetectorMC', 'Detector_graph.cfg', 'C19/graph', dump=True)
    behs, nn, ne, nc = tlc.graph_cover(g.dot, rng=random.Random(r.seed))
    r.extra['graph_cover'] = {'nodes': nn, 'edges': ne, 'edges_replayed': nc, 'behaviours': len(behs)}
    r.replay(None, behs, 'Detector', 'graph', parallel=16, factory=DetectorDriver)
    s = tlc.simulate('DetectorMC', 'Detector_sim.cfg', 'C19/sim', num=8000 if thorough else 800, depth=16, seed=r.seed + 19)
    if s.violated:
        raise tlc.TLCError('simulation violates %s' % s.violated)
    r.transitions += s.generated
    r.replay(None, s.behaviours, 'Detector', 'simulate', parallel=16, factory=DetectorDriver)
    # focused histories: build-keyword dispatch through combined / nested detectors, and (nested) antenna lists
    for cfg, num in (('Detector_simbuild.cfg', 4000 if thorough else 700), ('Detector_simlists.cfg', 4000 if thorough else 700)):
        sf = tlc.simulate('DetectorMC', cfg, 'C19/simf', num=num, depth=12, seed=r.seed + 191)
        if sf.violated:
            raise tlc.TLCError('simulation %s violates %s' % (cfg, sf.violated))
        r.transitions += sf.generated
        r.replay(None, sf.behaviours, 'Detector', 'simulate ' + cfg, parallel=16, factory=DetectorDriver)
    # exhaustive build-dispatch focus: every detector tree of <= 4 one-antenna strings built by + and += (9 steps), each
    # ended by one build call (Build is terminal there): all edges in thorough, a simulated sample in quick
    if thorough:
        gd = tlc.check('DetectorMC', 'Detector_deep.cfg', 'C19/deep', dump=True, timeout=3600)
        r.states += gd.distinct
        r.transitions += gd.generated
        bd, nn, ne, nc = tlc.graph_cover(gd.dot, rng=random.Random(r.seed))
        bd = [b for b in bd if b[-1][1]['last']['op'] == 'Build']
        r.extra['deep_build_graph'] = {'nodes': nn, 'edges': ne, 'behaviours_ending_in_build': len(bd)}
        r.replay(None, bd, 'Detector', 'graph (build focus)', parallel=16, factory=DetectorDriver)
    else:
        sd = tlc.simulate('DetectorMC', 'Detector_deep.cfg', 'C19/simdeep', num=3000, depth=9, seed=r.seed + 192)
        r.transitions += sd.generated
        r.replay(None, sd.behaviours, 'Detector', 'simulate (build focus)', parallel=16, factory=DetectorDriver)
    # D15 regression: as-is `+=` (append before the position test) gives the NoAntennaAboveIce counterexample
    w = r.model_check('DetectorMC', 'Detector_asis.cfg', expect_violation='NoAntennaAboveIce')
    fixed = list(w.trace[:-1])
    # under the repaired semantics the rejected += leaves the detector as it was
    lbl, st = w.trace[-1]
    st2 = dict(st)
    st2['obj'] = w.trace[-2][1]['obj']
    fixed.append((lbl, st2))
    r.replay(DetectorDriver(), [fixed], 'Detector', 'asis-witness-D15')
    missing = [o for o in OPS if not r.actions_seen.get(o)]
    if missing:
        raise tlc.TLCError('vacuity guard: ops never replayed: %s' % missing)
    r.assumptions += ['antennas are noiseless (Monte-Carlo truth = hit); operands of + are disjoint detectors',
                      'keyword sets exclude the combinations the code documents as errors (identical subsets given a keyword none accepts)']


def replay(r, path):
    import logging
    logging.disable(logging.WARNING)
    obj, beh = core.load_replay(path)
    ok = r.replay_one(DetectorDriver(), beh, 'Detector', 'replay-file')
    print('replay %s: %s' % (path, 'no divergence' if ok else 'DIVERGENCE'))
    return 0 if ok else 1
