"""C15 (discrete + relational core) -- EarthRel.tla: shell dispatch of the density, exact relations of the slant depth."""
from vlib import tlc, core
from drivers.earth_drv import EarthDriver

FINISH = dict(rule='EarthRel.tla behaviours (Probe, ScaleDir, Turn, Dip) replayed on PREM and CoreMantleCrustModel: density of every '
                   'probed radius equals the published law of the predicted shell (0 outside, shape preserved, scalar = array); '
                   'slant depth unchanged by the length of the direction and by quarter turns about the vertical, never smaller '
                   'after dipping deeper, exactly 0 for chords that do not enter the Earth')


def run(r):
    import warnings
    warnings.filterwarnings('ignore')
    thorough = r.tier == 'thorough'
    for model, cfg in (('PREM', 'EarthRel_prem'), ('CMC', 'EarthRel_cmc')):
        r.model_check('EarthRelMC', cfg + ('_thorough.cfg' if thorough else '.cfg'), timeout=3000)
        s = tlc.simulate('EarthRelMC', cfg + '_sim.cfg', 'C15/sim_' + model, num=(4000 if thorough else 800), depth=(14 if thorough else 9),
                         seed=r.seed + 15)
        r.transitions += s.generated
        r.replay(None, s.behaviours, 'EarthRel', model, parallel=16, factory=EarthDriver, factory_kw=dict(model=model))
    r.exhaustive = True
    for op in ('Probe', 'ScaleDir', 'Turn', 'Dip', 'ToAxis'):
        if not r.actions_seen.get(op):
            raise tlc.TLCError('vacuity guard: op %s never replayed' % op)
    r.assumptions += ['integer radii (metres) at, one below and one above every shell boundary, plus interior and outside points',
                      'six endpoints (two above the surface), ten zenith angles, quarter turns, steps 500 m and 137 m',
                      'accuracy / convergence of the trapezoid sum against the true chord integral is not decided (numerical)']


def replay(r, path):
    obj, beh = core.load_replay(path)
    model = obj.get('origin', 'PREM')
    ok = r.replay_one(EarthDriver(model if model in ('PREM', 'CMC') else 'PREM'), beh, 'EarthRel', model)
    print('replay %s: %s' % (path, 'no divergence' if ok else 'DIVERGENCE'))
    return 0 if ok else 1
