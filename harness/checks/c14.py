"""C14 -- EventTree.tla: event trees and the shower-fraction decision table / retry loop."""
import random
from vlib import tlc, core
from drivers.event_drv import EventDriver

FINISH = dict(rule='behaviours of EventTree.tla (all trees of <= 6 particles built by add_children with lists or single particles, '
                   'foreign parents; the fraction decision for kind x flavour x inelasticity x secondaries x scripted candidate '
                   'sequences x interaction model) executed on pyrex.Event / Particle / GQRSInteraction / CTWInteraction')


def run(r):
    thorough = r.tier == 'thorough'
    g = r.model_check('EventTreeMC', 'EventTree.cfg', dump=True)
    r.exhaustive = True
    behs, nn, ne, nc = tlc.graph_cover(g.dot, rng=random.Random(r.seed))
    r.extra['graph_cover'] = {'nodes': nn, 'edges': ne, 'edges_replayed': nc, 'behaviours': len(behs)}
    r.replay(None, behs, 'EventTree', 'graph', parallel=16, factory=EventDriver)
    for op in ('NewEvent', 'AddChildren', 'AddToForeign', 'Shower', 'Sigma'):
        if not r.actions_seen.get(op):
            raise tlc.TLCError('vacuity guard: op %s never replayed' % op)
    r.assumptions += ['distributions of interaction type / inelasticity, cross sections and interaction lengths are numerical: not decided',
                      'the secondary sampler is scripted through a subclass; the code under test is the decision and retry logic']


def replay(r, path):
    obj, beh = core.load_replay(path)
    ok = r.replay_one(EventDriver(), beh, 'EventTree', 'replay-file')
    print('replay %s: %s' % (path, 'no divergence' if ok else 'DIVERGENCE'))
    return 0 if ok else 1
