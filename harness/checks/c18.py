"""C18 -- UniformImage.tla + LayeredPaths.tla: exact image / Snell geometry replayed on the uniform and layered tracers."""
import random
from vlib import tlc, core
from drivers.uniform_drv import UniformDriver
from drivers.layered_drv import LayeredDriver, split_checks

FINISH = dict(rule='every behaviour of UniformImage.tla (slab, endpoint depths, separation, 0..3 reflections, initial direction; '
                   'Pythagorean cases only) and of LayeredPaths.tla (walker through stacks of uniform layers with rational Snell '
                   'data) is an exact ray; the real tracers are run on it under lattice azimuths / offsets / boundary-index '
                   'settings and compared; every returned layered solution is checked to be a continuous Snell chain; split '
                   'media are compared with the unsplit tracers')


def run(r):
    import logging
    import warnings
    logging.disable(logging.WARNING)
    warnings.filterwarnings('ignore')
    thorough = r.tier == 'thorough'
    rng = random.Random(r.seed)
    g = r.model_check('UniformImageMC', 'UniformImage.cfg', dump=True)
    behs, nn, ne, nc = tlc.graph_cover(g.dot, rng=rng)
    r.extra['uniform_cases'] = len(behs)
    r.replay(None, behs, 'UniformImage', 'all cases', parallel=16, factory=UniformDriver)
    g = r.model_check('LayeredPathsMC', 'LayeredPaths.cfg', dump=True)
    behs, nn, ne, nc = tlc.graph_cover(g.dot, rng=rng)
    r.extra['layered_walks'] = len(behs)
    r.replay(None, behs, 'LayeredPaths', 'all walks', parallel=16, factory=LayeredDriver)
    r.exhaustive = True
    try:
        n = split_checks(random.Random(r.seed + 18), n_uniform=60 if thorough else 16, n_exp=30 if thorough else 6)
        r.extra['split_equivalence_cases'] = n
    except core.Divergence as d:
        path = r.write_replay({'kind': 'split', 'field': d.field, 'expected': core._j(d.expected), 'observed': core._j(d.observed)})
        r.violation(path, '%s expected=%s observed=%s' % (d.field, str(d.expected)[:200], str(d.observed)[:200]))
    r.assumptions += ['exact comparison only on Pythagorean / rational-Snell lattices (tolerance 1e-9 uniform, 1e-6 layered root search)',
                      'exponential layers: split equivalence of the amplitude-carrying solutions only, tolerance 1e-4']


def replay(r, path):
    import json
    obj = json.load(open(path))
    if obj.get('kind') == 'split':
        print('split-equivalence divergence: re-run bin/check C18')
        return 1
    obj, beh = core.load_replay(path)
    drv = UniformDriver() if obj.get('module') == 'UniformImage' else LayeredDriver()
    ok = r.replay_one(drv, beh, obj.get('module'), 'replay-file')
    print('replay %s: %s' % (path, 'no divergence' if ok else 'DIVERGENCE'))
    return 0 if ok else 1
