"""C11 -- H5Store.tla (writer / file / index table), replayed into real HDF5 files."""
import random
from vlib import tlc, core
from drivers.h5_drv import H5Driver

FINISH = dict(rule='behaviours of H5Store.tla (all option families x add parameterisations x rejected adds x append sessions) '
                   'executed on HDF5Writer; after every step a flushed copy of the file is read back through HDF5Reader '
                   '(iteration, indexing) and compared with the accepted adds; index entries checked against dataset shapes')


def run(r):
    thorough = r.tier == 'thorough'
    drv = H5Driver(level='light', tag='C11')
    r.model_check('H5StoreMC', 'H5Store_c11.cfg' if thorough else 'H5Store_c11q.cfg')
    r.exhaustive = True
    n = 3000 if thorough else 250
    s = tlc.simulate('H5StoreMC', 'H5Store_sim.cfg', 'C11/sim', num=n, depth=9, seed=r.seed + 11)
    if s.violated:
        raise tlc.TLCError('simulation config violates %s' % s.violated)
    r.transitions += s.generated
    r.replay(drv, s.behaviours, 'H5Store', 'simulate', parallel=16, factory=H5Driver,
             factory_kw=dict(level='light', tag='C11', seed=r.seed))
    # regression witnesses of the repaired defects: TLC regenerates the counterexample from the as-is model,
    # the real code must not follow it
    w = r.model_check('H5StoreMC', 'H5Store_asis_d5.cfg', expect_violation='LenIsAccepted')
    r.extra['asis_witness_D5'] = [core.tlaval.to_json(s_['last']) for _, s_ in w.trace]
    drv.cleanup()
    r.assumptions += ['detector of 2 antennas; data carry tags; only rows addressed by the index are compared',
                      'h5py flush + file copy gives a consistent snapshot while the writer is open']


def replay(r, path):
    obj, beh = core.load_replay(path)
    ok = r.replay_one(H5Driver(level='full', tag='C11'), beh, 'H5Store', 'replay-file')
    print('replay %s: %s' % (path, 'no divergence' if ok else 'DIVERGENCE'))
    return 0 if ok else 1
