"""C11 -- H5Store.tla (writer / file / index table), replayed into real HDF5 files."""
import random
from vlib import tlc, core
from drivers.h5_drv import H5Driver

FINISH = dict(rule='behaviours of H5Store.tla (all option families x add parameterisations x rejected adds x append sessions) '
                   'executed on HDF5Writer; after every step a flushed copy of the file is read back through HDF5Reader '
                   '(iteration, indexing) and compared with the accepted adds; index entries checked against dataset shapes')


def run(r):
    thorough = r.tier == 'thorough'
    drv = H5Driver(level='light', tag='C11')
    r.model_check('H5StoreMC', 'H5Store_c11t.cfg' if thorough else 'H5Store_c11q.cfg')
    r.exhaustive = True
    n = 3000 if thorough else 250
    s = tlc.simulate('H5StoreMC', 'H5Store_sim.cfg', 'C11/sim', num=n, depth=9, seed=r.seed + 11)
    if s.violated:
        raise tlc.TLCError('simulation config violates %s' % s.violated)
    r.transitions += s.generated
    r.replay(drv, s.behaviours, 'H5Store', 'simulate', parallel=16, factory=H5Driver,
             factory_kw=dict(level='light', tag='C11', seed=r.seed))
    # regression witnesses of the repaired defects: TLC regenerates the counterexample from the as-is model,
    # the real code must not follow it
    w = r.model_check('H5StoreMC', 'H5Store_asis_d5.cfg', expect_violation='LenIsAccepted')
    r.extra['asis_witness_D5'] = [core.tlaval.to_json(s_['last']) for _, s_ in w.trace]
    drv.cleanup()
    code_to_spec(r, thorough)
    r.assumptions += ['detector of 2 antennas; data carry tags; only rows addressed by the index are compared',
                      'h5py flush + file copy gives a consistent snapshot while the writer is open']


DEF = dict(options={'write': [], 'trigOnly': []}, fresh=False, n=0, np=0, trig=False, form='', nw=0, nr=0, rays='', pbad=False,
           res='', exc='', nev=0, tables=[], idx=[], what='')


def code_to_spec(r, thorough):
    """traces of real writers -- the repository's own tests and an independent random workload -- validated by TLC"""
    import json
    import os
    import subprocess
    import sys
    from vlib import tracecheck
    tree = os.environ.get('PYREX_TREE', '/repo')
    out = os.path.join(tlc.WORK, 'C11', 'repo_traces.json')
    os.makedirs(os.path.dirname(out), exist_ok=True)
    env = dict(os.environ, H5TRACE_OUT=out, PYTHONPATH='%s:%s' % (tree, os.path.join(tlc.VERIF, 'harness')))
    p = subprocess.run([sys.executable, '-m', 'pytest', '-q', '-p', 'no:cacheprovider', '-p', 'recorders.h5trace_plugin',
                        'tests/test_io.py', 'tests/test_generation.py', 'tests/test_kernel.py'], cwd=tree, env=env,
                       stdout=subprocess.PIPE, stderr=subprocess.STDOUT, text=True, timeout=1800)
    raw = json.load(open(out)) if os.path.exists(out) else []
    if not raw:
        raise tlc.TLCError('no writer traces recorded from the repository tests:\n' + p.stdout[-1500:])
    r.extra['repo_tests_outcome'] = p.stdout.strip().split('\n')[-1]
    # independent random workload, recorded in-process
    from recorders import h5trace_plugin, h5_random
    h5trace_plugin.install()
    h5trace_plugin.reset()
    h5_random.run(400 if thorough else 60, r.seed + 111, os.path.join(tlc.WORK, 'C11', 'random'))
    raw2 = json.loads(json.dumps(h5trace_plugin.collected()))
    for origin, traces in (('repository tests', raw), ('random workload', raw2)):
        byfile = {}
        for t in traces:
            for e in t['events']:
                if e['ev'] == 'Open':
                    e['options'] = t['options']
            byfile.setdefault(t['file'], []).append(t)
        batch, names = [], []
        skipped = 0
        for f, ts in byfile.items():
            if any(t.get('analysis_indices') for t in ts):
                skipped += 1          # index rows written through add_analysis_indices: outside the model
                continue
            evs = [e for t in ts for e in t['events']]
            batch.append({'events': [dict(DEF, **{k: v for k, v in e.items() if v is not None}) for e in evs]})
            names.append(f)
        verdicts, res = tracecheck.validate('TraceH5Store', 'TraceH5Store.cfg', batch, 'C11/trace')
        r.states += res.distinct
        r.transitions += res.generated
        adds = sum(1 for b in batch for e in b['events'] if e['ev'] == 'Add')
        r.extra['code_to_spec_' + origin.replace(' ', '_')] = {'files': len(batch), 'add_calls': adds, 'skipped_analysis_files': skipped}
        for name, b, (reached, needed) in zip(names, batch, verdicts):
            if reached == needed:
                r.traces += 1
                continue
            nxt = b['events'][reached]
            path = r.write_replay({'kind': 'trace', 'origin': origin, 'file': name, 'matched': reached,
                                   'rejected_event': nxt, 'events': b['events']})
            r.violation(path, 'recorded writer trace (%s) rejected by TraceH5Store at event %d of %d: %s' % (
                origin, reached + 1, needed, json.dumps({k: v for k, v in nxt.items() if v not in ('', [], 0, False) or k == 'ev'})[:300]))
        if len(r.samples) < 4 and batch:
            r.samples.append({'origin': 'recorded writer trace (%s)' % origin,
                              'events': [{k: v for k, v in e.items() if v not in ('', [], 0, False) or k == 'ev'} for e in batch[0]['events'][:6]]})


def replay(r, path):
    import json as _json
    if _json.load(open(path)).get('kind') == 'trace':
        print('recorded-trace rejection: re-run bin/check C11 (traces are re-recorded from the current tree)')
        return 1
    obj, beh = core.load_replay(path)
    ok = r.replay_one(H5Driver(level='full', tag='C11'), beh, 'H5Store', 'replay-file')
    print('replay %s: %s' % (path, 'no divergence' if ok else 'DIVERGENCE'))
    return 0 if ok else 1
