"""C13 -- Generators.tla (throw counting, list replay, type thresholds) + ExitPoints.tla (lattice line/box, line/cylinder)."""
import random
from vlib import tlc, core
from drivers.generators_drv import GeneratorDriver, ExitPointDriver

FINISH = dict(rule='every edge of the state graph of Generators.tla (random generators with scripted survival per throw, shadow on/off; '
                   'list generators of length 1 and 3, loop on/off, count assignment; particle-type thresholds on a grid of '
                   'random-number cells x flavour ratios x sources) and every case of ExitPoints.tla (5076 lattice vertex / '
                   'direction pairs in a box and a cylinder, exact rational entry/exit) executed on pyrex.generation')


def run(r):
    import warnings
    warnings.filterwarnings('ignore')
    import numpy as np
    np.seterr(all='ignore')
    thorough = r.tier == 'thorough'
    rng = random.Random(r.seed)
    g = r.model_check('GeneratorsMC', 'Generators.cfg', dump=True)
    behs, nn, ne, nc = tlc.graph_cover(g.dot, rng=rng)
    r.extra['generators_graph'] = {'nodes': nn, 'edges': ne, 'behaviours': len(behs)}
    r.replay(None, behs, 'Generators', 'graph', parallel=16, factory=GeneratorDriver)
    g = r.model_check('ExitPointsMC', 'ExitPoints.cfg', dump=True)
    behs, nn, ne, nc = tlc.graph_cover(g.dot, rng=rng)
    r.extra['exit_point_cases'] = len(behs)
    r.replay(None, behs, 'ExitPoints', 'all cases', parallel=16, factory=ExitPointDriver)
    r.exhaustive = True
    for op in ('CreateRandom', 'CreateList', 'SetCount', 'PickType', 'Solve'):
        if not r.actions_seen.get(op):
            raise tlc.TLCError('vacuity guard: op %s never replayed' % op)
    r.assumptions += ['NOT decided: uniformity of vertices, isotropy of directions, flavour frequencies, energies from the source, '
                      'the numerical survival / interaction weight formulas (only that the returned survival weight is 1 with '
                      'shadowing and the thrown weight without)']


def replay(r, path):
    obj, beh = core.load_replay(path)
    drv = ExitPointDriver() if obj.get('module') == 'ExitPoints' else GeneratorDriver()
    ok = r.replay_one(drv, beh, obj.get('module'), 'replay-file')
    print('replay %s: %s' % (path, 'no divergence' if ok else 'DIVERGENCE'))
    return 0 if ok else 1
