"""C09 -- AntennaHits.tla on Antenna / AntennaSystem (noise-free exact, noisy by consistency)."""
import random
from vlib import tlc, core
from drivers.antenna_drv import AntennaDriver

OPS = ['Receive', 'ReceiveFail', 'AllWaveforms', 'Waveforms', 'IsHit', 'FullWaveform', 'IsHitDuring', 'Clear']
FINISH = dict(rule='behaviours of AntennaHits.tla (all interleavings of receive / all_waveforms / waveforms / is_hit / '
                   'full_waveform / is_hit_during / make_noise / clear(reset)) executed on a threshold Antenna, on an '
                   'AntennaSystem with a gain-2 one-sample-delay front end (lead-in 0 and 3 dt) and on noisy antennas')


def run(r):
    thorough = r.tier == 'thorough'
    for cfg in ('AntennaHits_ant.cfg', 'AntennaHits_sys.cfg', 'AntennaHits_noisy.cfg'):
        r.model_check('AntennaHitsMC', cfg.replace('.cfg', '_thorough.cfg') if thorough else cfg)
    r.exhaustive = True
    rng = random.Random(r.seed)
    for cfg, kw in (('AntennaHits_graph.cfg', dict(kind='antenna')), ('AntennaHits_graphsys.cfg', dict(kind='system', lead=True))):
        g = tlc.check('AntennaHitsMC', cfg, 'C09/graph', dump=True)
        behs, nn, ne, nc = tlc.graph_cover(g.dot, rng=rng)
        r.extra['graph_cover_' + kw['kind']] = {'nodes': nn, 'edges': ne, 'edges_replayed': nc, 'behaviours': len(behs)}
        r.replay(None, behs, 'AntennaHits', 'graph ' + kw['kind'], parallel=16, factory=AntennaDriver, factory_kw=kw)
    n = 3000 if thorough else 300
    for cfg, kw in (('AntennaHits_sim_ant.cfg', dict(kind='antenna')),
                    ('AntennaHits_sim_sys.cfg', dict(kind='system')),
                    ('AntennaHits_sim_sys.cfg', dict(kind='system', lead=True)),
                    ('AntennaHits_sim_noisy.cfg', dict(kind='antenna', noisy=True)),
                    ('AntennaHits_sim_noisysys.cfg', dict(kind='system', noisy=True, lead=True))):
        s = tlc.simulate('AntennaHitsMC', cfg, 'C09/sim', num=n, depth=18, seed=r.seed + 9 + len(kw))
        if s.violated:
            raise tlc.TLCError('simulation config %s violates %s' % (cfg, s.violated))
        r.transitions += s.generated
        r.replay(None, s.behaviours, 'AntennaHits', 'simulate %s' % kw, parallel=16, factory=AntennaDriver, factory_kw=kw)
    # open known finding D9: TLC regenerates the witness from the bare property; the witness is replayed
    w = r.model_check('AntennaHitsMC', 'AntennaHits_d9.cfg', expect_violation='ReportedIsSuperposition')
    # extend the counterexample by a second query so that the stale report is observed
    r.replay(AntennaDriver(kind='antenna'), [_with_requery(w.trace)], 'AntennaHits', 'witness-D9')
    missing = [o for o in OPS + ['MakeNoise'] if not r.actions_seen.get(o)]
    if missing:
        raise tlc.TLCError('vacuity guard: ops never replayed: %s' % missing)
    r.assumptions += ['integer grids of step 1.0, values multiples of 8 (midpoint interpolation exact)',
                      'noise: consistency of interpretation only (same generation and tick => same value)',
                      'noisy AntennaSystem: counts and grids only']


def _with_requery(trace):
    """the counterexample ends at the Receive that makes the cache stale; append the query that shows it"""
    label, st = trace[-1]
    st2 = dict(st)
    sigs = st['sigs']
    from drivers.antenna_drv import _wave
    shown = list(st['shown'])
    for k in range(len(shown), len(sigs)):
        shown.append(tuple(int(x) for x in _wave(sigs, sigs[k]['t0'], len(sigs[k]['v']), 'antenna')))
    st2['shown'] = tuple(shown)
    st2['last'] = core.tlaval.FrozenDict(op='AllWaveforms', res=tuple(shown), gen=st['gen'])
    return list(trace) + [('AllWaveforms', st2)]


def replay(r, path):
    obj, beh = core.load_replay(path)
    kw = {}
    origin = obj.get('origin', '')
    if 'system' in origin:
        kw['kind'] = 'system'
    if "'noisy': True" in origin:
        kw['noisy'] = True
    if "'lead': True" in origin:
        kw['lead'] = True
    ok = r.replay_one(AntennaDriver(**kw), beh, 'AntennaHits', origin or 'replay-file')
    print('replay %s: %s' % (path, 'no divergence' if ok else 'DIVERGENCE'))
    return 0 if ok else 1
