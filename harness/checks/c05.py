"""C05 -- Filter.tla: frequency filtering as discrete convolution, replayed on Signal.filter_frequencies."""
from vlib import tlc, core
from drivers.filter_drv import FilterDriver

FINISH = dict(rule='behaviours of Filter.tla (three signals a, b, a+2b through sequences of integer FIR responses: delays, advances, '
                   'gains, two-tap kernels; vectorised / scalar-only / positive-frequency-only with force_real) executed on real '
                   'signals over six time grids (dt 1e-10..2 s, negative and huge offsets); integer outputs compared exactly')


def run(r):
    import logging
    logging.disable(logging.WARNING)
    thorough = r.tier == 'thorough'
    r.model_check('FilterMC', 'Filter_small.cfg')
    r.exhaustive = True
    s = tlc.simulate('FilterMC', 'Filter_sim.cfg', 'C05/sim', num=6000 if thorough else 600, depth=4, seed=r.seed + 5)
    if s.violated:
        raise tlc.TLCError('simulation violates %s' % s.violated)
    r.transitions += s.generated
    r.replay(None, s.behaviours, 'Filter', 'simulate', parallel=16, factory=FilterDriver)
    w = r.model_check('FilterMC', 'Filter_d10.cfg', expect_violation='NeverWraps')
    r.replay(FilterDriver(), [w.trace], 'Filter', 'witness-D10')
    if not r.actions_seen.get('Apply'):
        raise tlc.TLCError('vacuity guard: no filter applied')
    r.assumptions += ['responses are integer FIR kernels (sums of delays / advances with integer gains) -- Butterworth, attenuation '
                      'curves and genuinely complex responses are not covered', 'energy clause only for single taps with |g| <= 1']


def replay(r, path):
    import logging
    logging.disable(logging.WARNING)
    obj, beh = core.load_replay(path)
    ok = r.replay_one(FilterDriver(), beh, 'Filter', 'replay-file')
    print('replay %s: %s' % (path, 'no divergence' if ok else 'DIVERGENCE'))
    return 0 if ok else 1
