"""C08 -- AntennaResponse.tla: value-type table, rotation covariance on the lattice, dipole gains, delegation."""
import random
from vlib import tlc, core
from drivers.response_drv import ResponseDriver

FINISH = dict(rule='every case of AntennaResponse.tla (24 lattice rotations x 10 arrival directions x 6 polarizations x 4 value types '
                   'x 4 antenna classes = 23040) executed on Antenna, a probe subclass with angle- and polarization-dependent '
                   'gains, DipoleAntenna (unit frequency response) and AntennaSystem: response factor, output type, linearity, '
                   'receive, dipole gains compared with the exact lattice prediction')


def run(r):
    import logging
    logging.disable(logging.WARNING)
    thorough = r.tier == 'thorough'
    g = r.model_check('AntennaResponseMC', 'AntennaResponse.cfg', dump=True)
    r.exhaustive = True
    behs, nn, ne, nc = tlc.graph_cover(g.dot, rng=random.Random(r.seed))
    if not thorough:
        rng = random.Random(r.seed)
        rng.shuffle(behs)
        behs = behs[:6000]
    r.extra['cases_replayed'] = len(behs)
    r.replay(None, behs, 'AntennaResponse', 'cases', parallel=16, factory=ResponseDriver)
    if not r.actions_seen.get('Respond') or not r.actions_seen.get('Reorient'):
        raise tlc.TLCError('vacuity guard: no case replayed')
    r.assumptions += ['unit frequency response (values exact); linearity through a non-trivial frequency response is C05 material',
                      'rotations restricted to the 24 lattice rotations']


def replay(r, path):
    import logging
    logging.disable(logging.WARNING)
    obj, beh = core.load_replay(path)
    ok = r.replay_one(ResponseDriver(), beh, 'AntennaResponse', 'replay-file')
    print('replay %s: %s' % (path, 'no divergence' if ok else 'DIVERGENCE'))
    return 0 if ok else 1
