"""SCENE -- SceneRel.tla (whole-scene symmetries of the simulation chain), not a listed property; run by `bin/check SCENE`
and as a stage of the thorough tier of C10."""
from vlib import tlc, core
from drivers.scene_drv import SceneDriver

FINISH = dict(rule='behaviours of SceneRel.tla (Turn, Shift, SwapAnt, SwapPart) executed on the real chain generator -> EventKernel -> '
                   'tracer -> Askaryan -> propagate -> antenna in four ice / tracer combinations; every antenna must hold exactly the '
                   'signals the bookkeeping predicts')


def stage(r, num, depth=5):
    import logging
    import warnings
    logging.disable(logging.WARNING)
    warnings.filterwarnings('ignore')
    r.model_check('SceneRelMC', 'SceneRel.cfg')
    from vlib import apalache
    apalache.inductive(r, 'SceneRelInd')
    s = tlc.simulate('SceneRelMC', 'SceneRel_sim.cfg', 'SCENE/sim', num=num, depth=depth, seed=r.seed + 77)
    r.transitions += s.generated
    r.replay(None, s.behaviours, 'SceneRel', 'simulate', parallel=16, factory=SceneDriver)


def run(r):
    stage(r, 480 if r.tier == 'thorough' else 96, 8 if r.tier == 'thorough' else 5)
    for op in ('Turn', 'Shift', 'SwapAnt', 'SwapPart'):
        if not r.actions_seen.get(op):
            raise tlc.TLCError('vacuity guard: op %s never replayed' % op)


def replay(r, path):
    obj, beh = core.load_replay(path)
    ok = r.replay_one(SceneDriver(), beh, 'SceneRel', 'replay-file')
    print('replay %s: %s' % (path, 'no divergence' if ok else 'DIVERGENCE'))
    return 0 if ok else 1
