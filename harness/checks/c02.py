"""C02 -- RaySymmetry.tla: reciprocity / translation / rotation orbits replayed on every shipped tracer."""
import random
from vlib import tlc, core
from drivers.symmetry_drv import SymmetryDriver

KINDS = ['specialized-antarctic', 'specialized-arasim', 'specialized-greenland', 'uniform', 'layered']
FINISH = dict(rule='orbits of lattice endpoint pairs under swap, horizontal shifts and quarter turns (RaySymmetry.tla, exhaustive '
                   'to depth 5) evaluated on the real tracers; at every state the solution set must be the predicted image of the '
                   'base solution set; exists <=> non-empty; gradient tracers 0 or 2 solutions; uniform count table in C18')


def run(r):
    import logging
    import warnings
    logging.disable(logging.WARNING)
    warnings.filterwarnings('ignore')
    thorough = r.tier == 'thorough'
    r.model_check('RaySymmetryMC', 'RaySymmetry.cfg')
    r.exhaustive = True
    s = tlc.simulate('RaySymmetryMC', 'RaySymmetry.cfg', 'C02/sim', num=1600 if thorough else 240, depth=6, seed=r.seed + 2)
    r.transitions += s.generated
    kinds = KINDS + (['basic-antarctic'] if thorough else [])
    for kind in kinds:
        behs = s.behaviours if kind != 'basic-antarctic' else s.behaviours[:200]
        if kind == 'layered' and not thorough:
            behs = behs[:120]
        r.replay(None, behs, 'RaySymmetry', kind, parallel=16, factory=SymmetryDriver, factory_kw=dict(kind=kind))
    if not thorough:
        r.replay(None, s.behaviours[:16], 'RaySymmetry', 'basic-antarctic', parallel=16, factory=SymmetryDriver,
                 factory_kw=dict(kind='basic-antarctic'))
    for op in ('Swap', 'Shift', 'Turn'):
        if not r.actions_seen.get(op):
            raise tlc.TLCError('vacuity guard: op %s never replayed' % op)
    r.assumptions += ['only quarter turns and lattice shifts (exact); tolerances 1e-6 (root search) / 1e-4 (numerical tracer)',
                      'attenuation of uniform / layered paths compared to 5e-3 (one-sided Riemann sum in the code)']


def replay(r, path):
    import json
    obj, beh = core.load_replay(path)
    kind = obj.get('origin', 'specialized-antarctic')
    ok = r.replay_one(SymmetryDriver(kind if kind in KINDS + ['basic-antarctic'] else 'specialized-antarctic'), beh, 'RaySymmetry', kind)
    print('replay %s: %s' % (path, 'no divergence' if ok else 'DIVERGENCE'))
    return 0 if ok else 1
