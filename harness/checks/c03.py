"""C03 (relational core) -- PropagateRel.tla: bilinearity / time invariance of RayPath.propagate on every shipped tracer."""
from vlib import tlc, core
from drivers.propagate_drv import PropagateDriver

FINISH = dict(rule='behaviours of PropagateRel.tla (ScaleSig, AddSig, ScalePol, AddPol, ShiftGrid) replayed on the paths of the '
                   'specialized, numerical, uniform and layered tracers at five geometries (one exactly vertical); at every state '
                   'propagate() of the combined input must be the predicted combination of the base outputs, on the input grid + tof, '
                   'with output energy <= input energy and unit, orthogonal, transverse polarization vectors')


def run(r):
    import logging
    import warnings
    logging.disable(logging.WARNING)
    warnings.filterwarnings('ignore')
    thorough = r.tier == 'thorough'
    r.model_check('PropagateRelMC', 'PropagateRel_thorough.cfg' if thorough else 'PropagateRel.cfg', timeout=3000)
    r.exhaustive = True
    from vlib import apalache
    apalache.inductive(r, 'PropagateRelInd')      # the same algebra without bounds: Consistent is an inductive invariant
    s = tlc.simulate('PropagateRelMC', 'PropagateRel_sim.cfg', 'C03/sim', num=(4000 if thorough else 640), depth=(10 if thorough else 7),
                     seed=r.seed + 3)
    r.transitions += s.generated
    r.replay(None, s.behaviours, 'PropagateRel', 'simulate', parallel=16, factory=PropagateDriver)
    for op in ('ScaleSig', 'AddSig', 'ScalePol', 'AddPol', 'ShiftGrid', 'ChangeStep'):
        if not r.actions_seen.get(op):
            raise tlc.TLCError('vacuity guard: op %s never replayed' % op)
    r.assumptions += ['64-sample grid of step 2^-30 s, integer basis signals and polarization coefficients (|x| <= 6)',
                      'attenuation interpolation off and 0.1; numerical agreement between the two settings is not decided',
                      'attenuation accuracy against the line integral of 1/L_att is not decided (numerical)']


def replay(r, path):
    obj, beh = core.load_replay(path)
    ok = r.replay_one(PropagateDriver(), beh, 'PropagateRel', obj.get('origin', 'replay'))
    print('replay %s: %s' % (path, 'no divergence' if ok else 'DIVERGENCE'))
    return 0 if ok else 1
