"""code -> spec: batch trace validation.  All traces go into one JSON file (env TRACE_FILE), one TLC
run (-workers 1) explores every trace as its own initial state; the trace module records the furthest
event matched per trace in TLC registers and prints `<<"VERDICT", t, reached, needed>>`."""
import json
import os
import re
from . import tlc


def validate(module, cfg, traces, tag, timeout=1800):
    """traces: list of JSON-able dicts.  -> (verdicts [(reached, needed)], TLC result)"""
    wd = os.path.join(tlc.WORK, tag)
    os.makedirs(wd, exist_ok=True)
    path = os.path.join(wd, 'traces.json')
    with open(path, 'w') as f:
        json.dump(traces, f)
    r = tlc.check(module, cfg, tag + '/tlc', workers=1, env={'TRACE_FILE': path}, timeout=timeout, allow_incomplete=True)
    verdicts = {}
    for m in re.finditer(r'<<"VERDICT", (\d+), (-?\d+), (\d+)>>', r.raw):
        verdicts[int(m.group(1))] = (int(m.group(2)), int(m.group(3)))
    if len(verdicts) != len(traces):
        raise tlc.TLCError('trace validation produced %d verdicts for %d traces:\n%s' % (len(verdicts), len(traces), r.raw[-3000:]))
    return [verdicts[i + 1] for i in range(len(traces))], r
