"""CLI: bin/check <ID> [--tier quick|thorough] [--replay file]"""
import argparse
import importlib
import os
import sys
import traceback

from . import core, tlc


def main():
    ap = argparse.ArgumentParser()
    ap.add_argument('prop')
    ap.add_argument('--tier', default=os.environ.get('VERIF_TIER', 'quick'), choices=['quick', 'thorough'])
    ap.add_argument('--replay')
    ap.add_argument('--seed', type=int, default=int(os.environ.get('VERIF_SEED', '0') or 0))
    a = ap.parse_args()
    mod = importlib.import_module('checks.' + a.prop.lower())
    r = core.Runner(a.prop, a.tier, a.seed)
    try:
        import pyrex  # noqa: F401  (from /repo's working tree)
        if a.replay:
            rc = mod.replay(r, a.replay)
            sys.exit(rc)
        mod.run(r)
        rc = r.finish(**getattr(mod, 'FINISH', {}))
    except tlc.TLCError as e:
        print('MACHINERY-FAILURE %s: %s' % (a.prop, e))
        sys.exit(2)
    except Exception:
        print('MACHINERY-FAILURE %s:' % a.prop)
        traceback.print_exc()
        sys.exit(2)
    sys.exit(rc)


if __name__ == '__main__':
    main()
