"""Parser for TLA+ values as printed by TLC (states, simulation files, dot dumps).

Mapping:  integers -> int, strings -> str, TRUE/FALSE -> bool,
<<...>> -> tuple, {...} -> frozenset, [a |-> v, ...] -> dict (str keys),
(k :> v @@ ...) -> dict (arbitrary hashable keys), a..b -> tuple(range),
bare identifiers (model values) -> ModelValue.
"""
import re


class ModelValue(str):
    def __repr__(self):
        return "MV(%s)" % str.__repr__(self)


class FrozenDict(dict):
    """dict that can live inside frozensets / be a dict key."""

    def __hash__(self):
        return hash(frozenset(self.items()))


_TOKEN = re.compile(r'''
    (?P<ws>\s+)
  | (?P<str>"(?:[^"\\]|\\.)*")
  | (?P<int>-?\d+)
  | (?P<op><<|>>|\|->|:>|@@|\.\.|[\[\]{}(),])
  | (?P<id>[A-Za-z_][A-Za-z0-9_!]*)
''', re.X)


def _tokens(s):
    pos = 0
    out = []
    n = len(s)
    while pos < n:
        m = _TOKEN.match(s, pos)
        if not m:
            raise ValueError("bad TLA+ value at %d: %r" % (pos, s[pos:pos + 40]))
        pos = m.end()
        k = m.lastgroup
        if k == 'ws':
            continue
        out.append((k, m.group(k)))
    return out


class _P:
    def __init__(self, toks):
        self.t = toks
        self.i = 0

    def peek(self):
        return self.t[self.i] if self.i < len(self.t) else (None, None)

    def eat(self, v=None):
        k, x = self.peek()
        if v is not None and x != v:
            raise ValueError("expected %r got %r at token %d" % (v, x, self.i))
        self.i += 1
        return k, x

    def value(self):
        v = self.atom()
        k, x = self.peek()
        if x == '..':
            self.eat()
            hi = self.atom()
            return tuple(range(v, hi + 1))
        return v

    def atom(self):
        k, x = self.peek()
        if k == 'int':
            self.eat()
            return int(x)
        if k == 'str':
            self.eat()
            return bytes(x[1:-1], 'utf-8').decode('unicode_escape')
        if k == 'id':
            self.eat()
            if x == 'TRUE':
                return True
            if x == 'FALSE':
                return False
            return ModelValue(x)
        if x == '<<':
            self.eat()
            items = []
            while self.peek()[1] != '>>':
                items.append(self.value())
                if self.peek()[1] == ',':
                    self.eat()
            self.eat('>>')
            return tuple(items)
        if x == '{':
            self.eat()
            items = []
            while self.peek()[1] != '}':
                items.append(self.value())
                if self.peek()[1] == ',':
                    self.eat()
            self.eat('}')
            return frozenset(_h(i) for i in items)
        if x == '[':
            self.eat()
            d = FrozenDict()
            while self.peek()[1] != ']':
                _, name = self.eat()
                self.eat('|->')
                d[name] = self.value()
                if self.peek()[1] == ',':
                    self.eat()
            self.eat(']')
            return d
        if x == '(':
            self.eat()
            d = FrozenDict()
            while True:
                key = self.value()
                self.eat(':>')
                d[_h(key)] = self.value()
                if self.peek()[1] == '@@':
                    self.eat()
                    continue
                break
            self.eat(')')
            return d
        raise ValueError("unexpected token %r at %d" % (x, self.i))


def _h(v):
    """make hashable"""
    if isinstance(v, dict) and not isinstance(v, FrozenDict):
        return FrozenDict(v)
    return v


def parse(s):
    p = _P(_tokens(s))
    v = p.value()
    if p.i != len(p.t):
        raise ValueError("trailing tokens in TLA+ value: %r" % (p.t[p.i:p.i + 5],))
    return v


_CONJ = re.compile(r'^/\\ ([A-Za-z_][A-Za-z0-9_]*) = ', re.M)


def parse_state(text):
    """Parse a block of `/\\ var = value` conjuncts (possibly multi-line) into a dict."""
    text = text.strip()
    if not text.startswith('/\\'):
        # single-variable state printed as `x = 1`
        m = re.match(r'([A-Za-z_][A-Za-z0-9_]*) = ', text)
        return {m.group(1): parse(text[m.end():])}
    ms = list(_CONJ.finditer(text))
    st = {}
    for i, m in enumerate(ms):
        end = ms[i + 1].start() if i + 1 < len(ms) else len(text)
        st[m.group(1)] = parse(text[m.end():end])
    return st


def to_json(v):
    """JSON-able rendering (for evidence samples / replay files)."""
    if isinstance(v, dict):
        return {str(k): to_json(x) for k, x in v.items()}
    if isinstance(v, (tuple, list)):
        return [to_json(x) for x in v]
    if isinstance(v, (set, frozenset)):
        return sorted((to_json(x) for x in v), key=repr)
    return v
