"""Run TLC (check / simulate / dump) and parse what it prints."""
import os
import re
import shutil
import subprocess
import time
from . import tlaval

VERIF = os.path.dirname(os.path.dirname(os.path.dirname(os.path.abspath(__file__))))
SPEC = os.path.join(VERIF, 'spec')
WORK = os.path.join(VERIF, '.work')


class TLCError(Exception):
    """machinery failure (exit 2)"""


class Result:
    def __init__(self):
        self.generated = 0
        self.distinct = 0
        self.depth = 0
        self.violated = None        # name of invariant / property
        self.kind = None            # 'invariant' | 'action' | 'deadlock' | 'postcondition'
        self.trace = []             # [(action label, state dict)]
        self.coverage = {}          # action name -> (distinct, generated)
        self.raw = ''
        self.wall = 0.0

    @property
    def ok(self):
        return self.violated is None


_STATE_HDR = re.compile(r'^State (\d+): <(.*?)>\s*$', re.M)
_COV = re.compile(r'^<(\w+) line \d+, col \d+ to line \d+, col \d+ of module (\w+)>: (\d+):(\d+)\s*$', re.M)


def _workdir(tag):
    d = os.path.join(WORK, tag)
    shutil.rmtree(d, ignore_errors=True)
    os.makedirs(d, exist_ok=True)
    return d


def _run(args, env, timeout, cwd):
    e = dict(os.environ)
    e.pop('JAVA_TOOL_OPTIONS', None)
    if env:
        e.update(env)
    t0 = time.time()
    try:
        p = subprocess.run(args, cwd=cwd, env=e, stdout=subprocess.PIPE, stderr=subprocess.STDOUT,
                           timeout=timeout, text=True, errors='replace')
    except subprocess.TimeoutExpired as ex:
        subprocess.run(['pkill', '-f', 'tlc2[.]TLC.*' + re.escape(cwd)], check=False)
        raise TLCError('TLC timed out after %ss: %s' % (timeout, ' '.join(args)))
    return p.returncode, p.stdout, time.time() - t0


def parse_trace(out):
    """[(label, state)] from a TLC error trace."""
    ms = list(_STATE_HDR.finditer(out))
    tr = []
    for i, m in enumerate(ms):
        end = ms[i + 1].start() if i + 1 < len(ms) else len(out)
        block = out[m.end():end]
        # the state ends at the first blank line
        block = block.split('\n\n')[0]
        label = m.group(2)
        label = re.sub(r' line \d+, col \d+ to line \d+, col \d+ of module \w+$', '', label)
        tr.append((label, tlaval.parse_state(block)))
    return tr


def check(module, cfg, tag, workers=16, coverage=False, dump=False, env=None, timeout=3600,
          view_deadlock=False, extra=(), allow_incomplete=False):
    """Exhaustive model checking of spec/<module>.tla with spec/<cfg>."""
    wd = _workdir(tag)
    if dump:
        workers = 1         # a level-bounded graph explored by racing workers differs from run to run; dumps are small
    args = ['tlc', '-workers', str(workers), '-metadir', os.path.join(wd, 'meta'), '-noGenerateSpecTE',
            '-config', os.path.join(SPEC, cfg)]
    if coverage:
        args += ['-coverage', '1']
    dot = None
    if dump:
        dot = os.path.join(wd, 'graph')
        args += ['-dump', 'dot,actionlabels', dot]
    args += list(extra)
    args.append(os.path.join(SPEC, module + '.tla'))
    rc, out, wall = _run(args, env, timeout, SPEC)
    r = Result()
    r.raw = out
    r.wall = wall
    r.dot = dot + '.dot' if dot else None
    m = re.findall(r'(\d+) states generated, (\d+) distinct states found', out)
    if m:
        r.generated, r.distinct = int(m[-1][0]), int(m[-1][1])
    m = re.search(r'The depth of the complete state graph search is (\d+)', out)
    if m:
        r.depth = int(m.group(1))
    for c in _COV.finditer(out):
        name = c.group(1)
        d, g = int(c.group(3)), int(c.group(4))
        pd, pg = r.coverage.get(name, (0, 0))
        r.coverage[name] = (pd + d, pg + g)
    m = re.search(r'Error: Invariant (\w+) is violated', out)
    if m:
        r.violated, r.kind = m.group(1), 'invariant'
    m2 = re.search(r'Error: Action property (\w+) is violated', out)
    if m2:
        r.violated, r.kind = m2.group(1), 'action'
    if 'Error: Deadlock reached' in out:
        r.violated, r.kind = 'Deadlock', 'deadlock'
    if r.violated:
        r.trace = parse_trace(out)
    elif 'Model checking completed. No error has been found' not in out and not (allow_incomplete and 'VERDICT' in out):
        raise TLCError('TLC did not complete (%s/%s):\n%s' % (module, cfg, out[-4000:]))
    return r


def simulate(module, cfg, tag, num, depth, seed, env=None, timeout=3600, workers=8):
    """Random behaviours (list of [(label, state)]); seeded, one TLC start; `num` behaviours in
    total, split over `workers` simulation workers (TLC's num is per worker)."""
    num = max(1, (num + workers - 1) // workers)
    wd = _workdir(tag)
    trd = os.path.join(wd, 'tr')
    os.makedirs(trd)
    args = ['tlc', '-workers', str(workers), '-metadir', os.path.join(wd, 'meta'), '-noGenerateSpecTE',
            '-config', os.path.join(SPEC, cfg),
            '-simulate', 'file=%s/b,num=%d' % (trd, num), '-depth', str(depth), '-seed', str(seed),
            os.path.join(SPEC, module + '.tla')]
    rc, out, wall = _run(args, env, timeout, SPEC)
    r = Result()
    r.raw, r.wall = out, wall
    m = re.search(r'Error: Invariant (\w+) is violated', out)
    if m:
        r.violated, r.kind = m.group(1), 'invariant'
        r.trace = parse_trace(out)
    m2 = re.search(r'Error: Action property (\w+) is violated', out)
    if m2:
        r.violated, r.kind = m2.group(1), 'action'
        r.trace = parse_trace(out)
    if 'TLC threw an unexpected exception' in out or 'Error: Parsing or semantic analysis failed' in out:
        raise TLCError('TLC simulation failed (%s/%s):\n%s' % (module, cfg, out[-3000:]))
    m = re.search(r'The number of states generated: (\d+)', out)
    if m:
        r.generated = int(m.group(1))
    elif not r.violated:
        raise TLCError('TLC simulation did not complete (%s/%s):\n%s' % (module, cfg, out[-4000:]))
    behs = []
    for fn in sorted(os.listdir(trd), key=lambda s: [int(x) for x in re.findall(r'\d+', s)]):
        behs.append(parse_sim_file(os.path.join(trd, fn)))
    r.behaviours = behs
    shutil.rmtree(trd, ignore_errors=True)
    return r


_SIM_HDR = re.compile(r'^\\\* <(.*?)>\s*\nSTATE_(\d+) ==\s*\n', re.M)


def parse_sim_file(path):
    txt = open(path).read()
    txt = re.sub(r'\n=+\s*$', '\n', txt)
    ms = list(_SIM_HDR.finditer(txt))
    beh = []
    for i, m in enumerate(ms):
        end = ms[i + 1].start() if i + 1 < len(ms) else len(txt)
        block = txt[m.end():end].strip()
        label = re.sub(r' line \d+, col \d+ to line \d+, col \d+ of module \w+$', '', m.group(1))
        beh.append((label, tlaval.parse_state(block)))
    return beh


_NODE = re.compile(r'^(-?\d+) \[label="((?:[^"\\]|\\.)*)"', re.M)
_EDGE = re.compile(r'^(-?\d+) -> (-?\d+) \[label="((?:[^"\\]|\\.)*)"', re.M)


def parse_dot(path):
    """-> (init ids, {id: state}, [(src, dst, label)])"""
    txt = open(path).read()
    nodes, inits, edges = {}, [], []
    for line in txt.split('\n'):
        m = _EDGE.match(line)
        if m:
            edges.append((m.group(1), m.group(2), m.group(3)))
            continue
        m = _NODE.match(line)
        if m:
            lab = m.group(2).replace('\\n', '\n').replace('\\"', '"').replace('\\\\', '\\')
            nodes[m.group(1)] = tlaval.parse_state(lab)
            if 'style = filled' in line:
                inits.append(m.group(1))
    return inits, nodes, edges


def graph_cover(path, max_paths=None, rng=None):
    """Behaviours covering every edge of the dumped state graph: BFS tree path to the
    edge's source + the edge.  Edges that lie on a tree path extended by a later
    behaviour are not repeated."""
    from collections import deque, defaultdict
    inits, nodes, edges = parse_dot(path)
    # TLC writes the dump in the order its workers reach the states: make the cover independent of it
    # (and of the node ids, which are fingerprints under a polynomial TLC picks at random per run)
    canon = {i: repr(sorted((k, repr(v)) for k, v in st.items())) for i, st in nodes.items()}
    inits = sorted(inits, key=lambda i: canon[i])
    edges = sorted(set(edges), key=lambda e: (canon[e[0]], e[2], canon[e[1]]))
    out = defaultdict(list)
    for s, d, l in edges:
        out[s].append((d, l))
    parent = {i: None for i in inits}
    q = deque(inits)
    while q:
        n = q.popleft()
        for d, l in out[n]:
            if d not in parent:
                parent[d] = (n, l)
                q.append(d)

    covered = set()

    def path_to(n):
        p = []
        while parent[n] is not None:
            pn, l = parent[n]
            p.append((l, nodes[n]))
            covered.add((pn, n, l))
            n = pn
        p.append(('Init', nodes[n]))
        p.reverse()
        return p
    # greedy: extend from each uncovered edge forward along uncovered edges
    behs = []
    order = list(edges)
    if rng is not None:
        rng.shuffle(order)
    for s, d, l in order:
        if (s, d, l) in covered or s not in parent:
            continue
        beh = path_to(s)
        cur = s
        nxt = (d, l)
        steps = 0
        while nxt is not None and steps < 40:
            dd, ll = nxt
            covered.add((cur, dd, ll))
            beh.append((ll, nodes[dd]))
            cur = dd
            steps += 1
            nxt = None
            for d2, l2 in out[cur]:
                if (cur, d2, l2) not in covered:
                    nxt = (d2, l2)
                    break
        behs.append(beh)
        if max_paths and len(behs) >= max_paths:
            break
    return behs, len(nodes), len(set(edges)), len(covered)
