"""Check runner: accumulates TLC statistics, replays behaviours on drivers, handles
known findings, writes evidence, prints verdict lines, decides the exit code.

Exit codes: 0 property held on everything explored; 1 violation (VIOLATION line);
2 machinery failure (TLC crash, parse error, vacuity guard).
"""
import json
import os
import sys
import time
import traceback

from . import tlaval, tlc

VERIF = tlc.VERIF
EVID = os.path.join(VERIF, 'evidence')
REPLAYS = os.path.join(VERIF, 'replays')
FINDINGS_FILE = os.path.join(VERIF, 'known_findings.json')


def to_tla(v):
    """print a parsed value back as TLA+ text (round-trips through tlaval.parse)."""
    if isinstance(v, bool):
        return 'TRUE' if v else 'FALSE'
    if isinstance(v, int):
        return str(v)
    if isinstance(v, tlaval.ModelValue):
        return str(v)
    if isinstance(v, str):
        return '"' + v.replace('\\', '\\\\').replace('"', '\\"') + '"'
    if isinstance(v, (tuple, list)):
        return '<<' + ', '.join(to_tla(x) for x in v) + '>>'
    if isinstance(v, (set, frozenset)):
        return '{' + ', '.join(sorted(to_tla(x) for x in v)) + '}'
    if isinstance(v, dict):
        if not v:
            return '<<>>'
        if all(isinstance(k, str) and not isinstance(k, tlaval.ModelValue) and k.isidentifier() for k in v):
            return '[' + ', '.join('%s |-> %s' % (k, to_tla(x)) for k, x in v.items()) + ']'
        return '(' + ' @@ '.join('%s :> %s' % (to_tla(k), to_tla(x)) for k, x in v.items()) + ')'
    raise TypeError(type(v))


class Divergence(Exception):
    """real code and specification disagree"""

    def __init__(self, field, expected, observed, note=''):
        super().__init__('%s: expected %r observed %r %s' % (field, expected, observed, note))
        self.field, self.expected, self.observed, self.note = field, expected, observed, note


class Known(Exception):
    """a divergence that matches the signature of an open known finding"""

    def __init__(self, fid, what=''):
        super().__init__(fid)
        self.fid, self.what = fid, what


class Findings:
    def __init__(self):
        self.entries = []
        if os.path.exists(FINDINGS_FILE):
            self.entries = json.load(open(FINDINGS_FILE))['findings']

    def is_open(self, fid):
        return any(e['id'] == fid and e['status'] == 'open' for e in self.entries)

    def get(self, fid):
        for e in self.entries:
            if e['id'] == fid:
                return e
        return None


class Runner:
    def __init__(self, prop, tier, seed):
        self.prop, self.tier, self.seed = prop, tier, seed
        self.t0 = time.time()
        self.states = 0
        self.transitions = 0
        self.tlc_runs = []
        self.behaviours = 0        # spec -> code behaviours replayed
        self.steps = 0
        self.traces = 0            # code -> spec traces accepted
        self.samples = []
        self.violations = []       # replay paths
        self.known_seen = {}       # fid -> description
        self.findings = Findings()
        self.actions_seen = {}
        self.notes = []
        self.exhaustive = False
        self.assumptions = []
        self.extra = {}
        os.makedirs(EVID, exist_ok=True)

    # ----- TLC ---------------------------------------------------------------
    def model_check(self, module, cfg, required_actions=(), expect_violation=None, **kw):
        """Run TLC; a violation of the model is a machinery/spec failure unless expected.
        With expect_violation=name the counterexample trace is returned (known-finding witness)."""
        tag = '%s/%s_%s' % (self.prop, module, cfg.replace('.cfg', ''))
        r = tlc.check(module, cfg, tag, coverage=bool(required_actions), **kw)
        self.tlc_last = r
        self.states += r.distinct
        self.transitions += r.generated
        self.tlc_runs.append({'module': module, 'cfg': cfg, 'distinct': r.distinct, 'generated': r.generated,
                              'depth': r.depth, 'wall_s': round(r.wall, 1), 'violated': r.violated,
                              'coverage': {k: v[1] for k, v in r.coverage.items() if k in required_actions}})
        if expect_violation:
            if r.violated != expect_violation:
                raise tlc.TLCError('%s/%s: expected counterexample for %s, got %r' % (module, cfg, expect_violation, r.violated))
            return r
        if r.violated:
            # the model itself violates the property: report as violation of the property on the spec
            path = self.write_replay({'kind': 'model', 'module': module, 'cfg': cfg, 'violated': r.violated,
                                      'trace': [{'label': l, 'state_tla': {k: to_tla(v) for k, v in s.items()}} for l, s in r.trace]})
            self.violation(path, 'TLC: %s violated in %s/%s' % (r.violated, module, cfg))
            return r
        for a in required_actions:
            if r.coverage.get(a, (0, 0))[1] == 0:
                raise tlc.TLCError('vacuity guard: action %s never taken in %s/%s' % (a, module, cfg))
        return r

    # ----- replay ------------------------------------------------------------
    def replay(self, driver, behaviours, module, origin, parallel=0, factory=None, factory_kw=None):
        """step every behaviour through the driver (serially, or over `parallel` processes with
        drivers built by factory(**factory_kw)); returns number of divergent behaviours"""
        results = []
        import time as _time
        _t0 = _time.time()
        self._replay_walls = getattr(self, '_replay_walls', [])
        self._replay_walls.append([module + ' / ' + str(origin), len(behaviours), _t0])
        if parallel and len(behaviours) >= 2 * parallel and factory is not None:
            import multiprocessing as mp
            chunks = [[] for _ in range(parallel * 4)]
            for i, beh in enumerate(behaviours):
                chunks[i % len(chunks)].append((i, beh))
            ctx = mp.get_context('fork')
            with ctx.Pool(parallel) as pool:
                for out, stats in pool.imap_unordered(_worker, [(factory, factory_kw or {}, ch) for ch in chunks if ch]):
                    results.extend(out)
                    for k, v in stats.items():
                        self.extra[k] = self.extra.get(k, 0) + v
            results.sort(key=lambda x: x[0])
        else:
            if driver is None:
                driver = factory(**(factory_kw or {}))
            for i, beh in enumerate(behaviours):
                results.append((i,) + run_behaviour(driver, beh))
            if hasattr(driver, 'stats'):
                for k, v in driver.stats().items():
                    self.extra[k] = self.extra.get(k, 0) + v
        bad = 0
        for i, status, step, info, ops, known in results:
            beh = behaviours[i]
            self.behaviours += 1
            self.steps += step
            for k, v in ops.items():
                self.actions_seen[k] = self.actions_seen.get(k, 0) + v
            for fid, what in known:
                if not self.findings.is_open(fid):
                    status, info = 'div', {'field': 'known-finding', 'expected': 'finding %s listed as open' % fid,
                                           'observed': what, 'note': ''}
                else:
                    self.known_seen.setdefault(fid, what)
            if status == 'div':
                bad += 1
                if bad <= 5:
                    path = self.write_replay({'kind': 'replay', 'module': module, 'origin': origin, 'step': step,
                                              'divergence': info,
                                              'behaviour': [{'label': l, 'state_tla': {k: to_tla(v) for k, v in s.items()}}
                                                            for l, s in beh[:step + 1]]})
                    self.violation(path, 'step %d (%s): %s expected=%s observed=%s' % (
                        step, beh[min(step, len(beh) - 1)][0], info['field'], str(info['expected'])[:300], str(info['observed'])[:300]))
            if len(self.samples) < 3 and len(beh) > 2 and (i % 7 == 0):
                self.samples.append({'module': module, 'origin': origin,
                                     'ops': [tlaval.to_json(s.get('last', l)) for l, s in beh[1:8]]})
        if bad > 5:
            self.notes.append('%s/%s: %d divergent behaviours, first 5 reported' % (module, origin, bad))
        return bad

    def replay_one(self, driver, beh, module, origin):
        return self.replay(driver, [beh], module, origin) == 0

    # ----- verdicts ----------------------------------------------------------
    def write_replay(self, obj):
        d = os.path.join(REPLAYS, self.prop)
        os.makedirs(d, exist_ok=True)
        n = len(self.violations)
        path = os.path.join(d, '%s_%d_%d.json' % (self.tier, self.seed, n))
        obj['property'] = self.prop
        with open(path, 'w') as f:
            json.dump(obj, f, indent=1, default=str)
        return path

    def violation(self, path, msg):
        self.violations.append(path)
        print('VIOLATION property=%s replay=%s' % (self.prop, path))
        print('  ' + msg)
        sys.stdout.flush()

    def known(self, fid, what):
        self.known_seen.setdefault(fid, what)

    def finish(self, level='model_checking', rule=''):
        for fid, what in sorted(self.known_seen.items()):
            e = self.findings.get(fid)
            print('KNOWN-FINDING: property=%s %s: %s' % (self.prop, fid, (e or {}).get('description', what)))
        cov = {
            'states': self.states, 'transitions': self.transitions,
            'traces_validated_against_impl': self.behaviours + self.traces,
            'behaviours_replayed_spec_to_code': self.behaviours,
            'replayed_steps': self.steps,
            'recorded_traces_accepted_code_to_spec': self.traces,
            'samples': self.samples or [{'note': 'no behaviour sampled'}],
            'tlc_runs': self.tlc_runs,
            'actions_replayed': self.actions_seen,
            'exhaustive': self.exhaustive,
            'rule': rule,
            'known_findings_reproduced': sorted(self.known_seen),
            'notes': self.notes,
        }
        cov.update(self.extra)
        walls = getattr(self, '_replay_walls', [])
        if walls:
            import time as _time
            ends = [w[2] for w in walls[1:]] + [_time.time()]
            cov['replay_stages'] = [{'stage': w[0], 'behaviours': w[1], 'until_next_stage_s': round(e - w[2], 1)} for w, e in zip(walls, ends)]
        ev = {'property_id': self.prop, 'tier': self.tier, 'seed': self.seed, 'level': level,
              'coverage': cov, 'assumptions': self.assumptions,
              'wall_s': round(time.time() - self.t0, 1), 'violations': len(self.violations)}
        with open(os.path.join(EVID, self.prop + '.json'), 'w') as f:
            json.dump(ev, f, indent=1, default=str)
        print('%s %s tier=%s seed=%d: states=%d transitions=%d behaviours=%d steps=%d traces=%d wall=%.0fs violations=%d' % (
            'FAIL' if self.violations else 'OK', self.prop, self.tier, self.seed, self.states, self.transitions,
            self.behaviours, self.steps, self.traces, time.time() - self.t0, len(self.violations)))
        return 1 if self.violations else 0


def run_behaviour(driver, beh):
    """-> (status 'ok'|'div', steps done / failing step, divergence info, ops seen, known findings hit)"""
    ops, known = {}, []
    step = -1
    try:
        try:
            for step, (label, state) in enumerate(beh):
                lst = state.get('last')
                name = lst['op'] if isinstance(lst, dict) and 'op' in lst else label.split('(')[0]
                ops[name] = ops.get(name, 0) + 1
                try:
                    if step == 0:
                        driver.reset(state)
                    else:
                        driver.step(label, state)
                except Known as k:
                    known.append((k.fid, k.what))
                    # the real object no longer follows the spec state: stop this behaviour here
                    return 'ok', step, None, ops, known
                if getattr(driver, 'known', None):
                    # finding matched while the real object still follows the (as-is) model: go on
                    known.extend(driver.known)
                    driver.known = []
            if hasattr(driver, 'finish'):
                driver.finish(beh[-1][1])
            return 'ok', len(beh) - 1, None, ops, known
        finally:
            try:
                driver.cleanup()
            except Exception:
                pass
    except Divergence as d:
        info = {'field': d.field, 'expected': d.expected if isinstance(d.expected, str) else _j(d.expected),
                'observed': _j(d.observed), 'note': d.note}
    except tlc.TLCError:
        raise
    except Exception as e:  # unexpected exception escaping the real code or the driver
        info = {'field': 'exception', 'expected': 'no exception', 'observed': repr(e),
                'note': traceback.format_exc()[-1500:]}
    return 'div', max(step, 0), info, ops, known


def _worker(args):
    factory, kw, items = args
    drv = factory(**kw)
    out = [(i,) + run_behaviour(drv, beh) for i, beh in items]
    return out, (drv.stats() if hasattr(drv, 'stats') else {})


def _j(v):
    try:
        json.dumps(v)
        return v
    except TypeError:
        try:
            return tlaval.to_json(v)
        except Exception:
            return repr(v)


def load_replay(path):
    obj = json.load(open(path))
    beh = []
    for st in obj.get('behaviour', obj.get('trace', [])):
        beh.append((st['label'], {k: tlaval.parse(v) for k, v in st['state_tla'].items()}))
    return obj, beh
