"""Inductive-invariant obligations discharged with Apalache (unbounded in values and in the length of behaviours)."""
import os
import subprocess
import time
from . import tlc


def inductive(r, module, inv='Consistent', cinit=None, timeout=900):
    """Init => inv (length 0) and IndInit /\\ Next => inv' (length 1) for spec/apalache/<module>.tla"""
    spec = os.path.join(tlc.SPEC, 'apalache', module + '.tla')
    out = os.path.join(tlc.WORK, r.prop, 'apalache_' + module)
    res = {}
    for name, args in (('Init => %s' % inv, ['--init=Init', '--length=0']),
                       ("%s /\\ Next => %s'" % (inv, inv), ['--init=IndInit', '--length=1'])):
        t0 = time.time()
        cmd = ['apalache-mc', 'check', '--inv=' + inv, '--out-dir=' + out] + (['--cinit=' + cinit] if cinit else []) + args + [spec]
        p = subprocess.run(cmd, stdout=subprocess.PIPE, stderr=subprocess.STDOUT, text=True, timeout=timeout)
        ok = 'The outcome is: NoError' in p.stdout
        res[name] = {'ok': ok, 'wall_s': round(time.time() - t0, 1)}
        if not ok:
            if 'The outcome is: Error' in p.stdout:
                path = r.write_replay({'kind': 'apalache', 'module': module, 'obligation': name, 'output': p.stdout[-3000:]})
                r.violation(path, 'Apalache: inductive invariant of %s.tla fails (%s)' % (module, name))
            else:
                raise tlc.TLCError('apalache-mc failed:\n' + p.stdout[-2000:])
    r.extra['apalache_inductive_invariant_' + module] = res
    return res
