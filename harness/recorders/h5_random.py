"""Independent random workload for the HDF5 writer (not derived from any TLC behaviour): random options, random
add() parameterisations including the rejected ones, closes and append sessions.  Recorded through
recorders.h5trace_plugin and validated by TLC against TraceH5Store.tla."""
import os
import random
import shutil
from pyrex.io import File
from drivers import h5_drv

KINDS = ['particles', 'triggers', 'antenna_triggers', 'rays', 'noise', 'waveforms']
FORMS = ['bool', 'bool', 'dict', 'dictx', 'dictl', 'dictshort', 'badtype', 'noglobal', 'none']


def run(n_files, seed, workdir):
    rng = random.Random(seed)
    shutil.rmtree(workdir, ignore_errors=True)
    os.makedirs(workdir)
    for i in range(n_files):
        write = {'particles'} | {k for k in KINDS[1:] if rng.random() < 0.6}
        if 'antenna_triggers' in write:
            write.add('triggers')
        trig_only = {k for k in KINDS if rng.random() < 0.35}
        drv = h5_drv.H5Driver(level='light', tag='C11r')
        drv.c = {'write': write, 'trigOnly': trig_only}
        path = os.path.join(workdir, 'r%d.h5' % i)
        drv.path = path
        drv.det = [h5_drv.TagAntenna(position=(10.0 * a, 0.0, -100.0 - a), noisy=False) for a in range(h5_drv.N_ANT)]
        w = File(path, 'w', **drv._options())
        w.open()
        w.set_detector(drv.det)
        drv.writer = w
        k = 0
        for step in range(rng.randint(2, 7)):
            r = rng.random()
            if r < 0.12 and drv.writer.is_open:
                drv.writer.close()
                drv.writer = File(path, 'a', **drv._options())
                drv.writer.open()
                if rng.random() < 0.7:
                    drv.writer.set_detector(drv.det)
                continue
            k += 1
            p = {'np': rng.randint(1, 3), 'trig': rng.random() < 0.6, 'form': rng.choice(FORMS), 'nw': rng.randint(0, 3),
                 'nr': rng.randint(0, 3), 'rays': rng.choice(['ok', 'ok', 'ok', 'none', 'badshape']), 'pbad': rng.random() < 0.1}
            if p['form'] == 'dictshort' and p['nw'] == 0:
                p['form'] = 'dictl'
            try:
                drv.do_add({'k': k, 'p': p, 'res': 'either'})
            except Exception:
                pass
        if drv.writer.is_open:
            drv.writer.close()
