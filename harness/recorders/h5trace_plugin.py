"""pytest plugin: records what HDF5Writer objects do while the repository's own tests (or any workload) run.

Loaded with `-p recorders.h5trace_plugin`; traces are appended to the JSON-lines file named by H5TRACE_OUT.
One trace per writer object: options + events Open / SetDetector / Add(abstract parameters, outcome) / Close /
Snapshot(index table read from the closed file).  The traces are validated by TLC against spec/TraceH5Store.tla.
Nothing in /repo is changed: the methods are wrapped from outside for the duration of the test session.
"""
import json
import os
import numpy as np

KINDS = ['particles', 'triggers', 'antenna_triggers', 'rays', 'noise', 'waveforms']
TABLE_OF = {'/monte_carlo_data/particles': 'particles_meta', '/data/triggers': 'triggers',
            '/monte_carlo_data/triggers': 'mc_triggers', '/monte_carlo_data/rays': 'rays_meta',
            '/monte_carlo_data/noise': 'noise', '/data/waveforms': 'waveforms'}
_traces = {}       # serial number -> trace (object ids are re-used after garbage collection)
_serial = [0]


def _trace(w):
    return _traces.get(getattr(w, '_h5trace_serial', None))


def _abstract_add(w, event, triggered, ray_paths, polarizations):
    has_det = bool(getattr(w, 'has_detector', False)) and hasattr(w, '_h5trace_det')
    try:
        np_ = len(event)
    except TypeError:
        np_ = 0
    pbad = False
    try:
        for meta in (event._metadata if event is not None else []):
            for val in meta.values():
                if isinstance(val, str):
                    continue
                try:
                    n = len(val)
                except TypeError:
                    continue
                if n and not isinstance(val[0], str) and not np.isscalar(val[0]):
                    pbad = True
    except Exception:
        pass
    nw = 0
    if has_det:
        try:
            nw = max(len(a.all_waveforms) for a in w._h5trace_det)
        except Exception:
            nw = 0
    trig = False
    if triggered is None:
        form = 'none'
    elif isinstance(triggered, bool):
        form, trig = 'bool', triggered
    elif isinstance(triggered, dict):
        if 'global' not in triggered:
            form = 'noglobal'
        else:
            trig = bool(triggered['global'])
            extra = {k: v for k, v in triggered.items() if k != 'global'}
            if not extra:
                form = 'dict'
            elif all(isinstance(v, bool) for v in extra.values()):
                form = 'dictx'
            elif any((not isinstance(v, bool)) and len(v) < nw for v in extra.values()):
                form = 'dictshort'
            else:
                form = 'dictl'
    else:
        form = 'badtype'
    rays, nr = 'ok', 0
    if ray_paths is None or polarizations is None:
        rays = 'none'
    else:
        nr = max([len(x) for x in ray_paths], default=0)
        if has_det:
            n_det = len(w._h5trace_det)
            if len(ray_paths) != n_det or len(polarizations) != n_det or \
                    any(len(a) != len(b) for a, b in zip(ray_paths, polarizations)):
                rays = 'badshape'
    return {'np': int(np_), 'trig': bool(trig), 'form': form, 'nw': int(nw), 'nr': int(nr), 'rays': rays, 'pbad': bool(pbad)}


def _snapshot(path):
    import h5py
    with h5py.File(path, 'r') as f:
        if '/event_indices' not in f:
            return {'ev': 'Snapshot', 'nev': 0, 'tables': [], 'idx': []}
        ds = f['/event_indices']
        keys = [k if isinstance(k, str) else k.decode() for k in ds.attrs['keys']]
        tab = ds[...]
        tables = [TABLE_OF.get(k, '') for k in keys]
        idx = [[[int(tab[e, j, 0]), int(tab[e, j, 1])] for j in range(len(keys))] for e in range(tab.shape[0])]
        return {'ev': 'Snapshot', 'nev': int(tab.shape[0]), 'tables': tables, 'idx': idx}


def install():
    pytest_configure(None)


def collected():
    return [t for t in _traces.values() if t['events']]


def reset():
    _traces.clear()


_installed = []


def pytest_configure(config):
    if _installed:
        return
    _installed.append(True)
    import pyrex.io as io
    W = io.HDF5Writer
    orig = {k: getattr(W, k) for k in ('__init__', 'open', 'close', 'set_detector', 'add', 'add_analysis_indices')}

    import inspect
    sig = inspect.signature(orig['__init__'])

    def init(self, *a, **kw):
        orig['__init__'](self, *a, **kw)
        # the options as documented, from the constructor's own arguments (no private state of the writer is read)
        ba = sig.bind(self, *a, **kw)
        ba.apply_defaults()
        arg = ba.arguments
        write = {k: bool(arg.get('write_' + k, False)) for k in KINDS}
        rt = arg.get('require_trigger', True)
        if isinstance(rt, bool):
            trig_only = {k: (rt and k not in ('particles', 'triggers', 'antenna_triggers')) for k in KINDS}
        else:
            keys = [rt] if isinstance(rt, str) else list(rt)
            trig_only = {k: (k in keys) for k in KINDS}
        _serial[0] += 1
        self._h5trace_serial = _serial[0]
        self._h5trace_mode = arg.get('mode', 'x')
        _traces[_serial[0]] = {'file': self.filename, 'mode': self._h5trace_mode,
                             'options': {'write': [k for k in KINDS if write[k]],
                                         'trigOnly': [k for k in KINDS if trig_only[k]]},
                             'events': []}

    def open_(self):
        existed = os.path.exists(self.filename)
        orig['open'](self)
        t = _trace(self)
        if t is not None:
            fresh = self._h5trace_mode in ('w', 'x') or not existed
            t['events'].append({'ev': 'Open', 'fresh': bool(fresh)})
            if not fresh:
                t['continues'] = True

    def close(self):
        orig['close'](self)
        t = _trace(self)
        if t is not None:
            t['events'].append({'ev': 'Close'})
            try:
                t['events'].append(_snapshot(self.filename))
            except Exception as ex:
                t['events'].append({'ev': 'SnapshotFailed', 'what': repr(ex)})

    def set_detector(self, detector):
        orig['set_detector'](self, detector)
        self._h5trace_det = detector
        t = _trace(self)
        if t is not None:
            t['events'].append({'ev': 'SetDetector', 'n': len(detector)})

    def add(self, event, triggered=None, ray_paths=None, polarizations=None, events_thrown=1):
        t = _trace(self)
        rec = None
        if t is not None and self.is_open:
            rec = dict(_abstract_add(self, event, triggered, ray_paths, polarizations), ev='Add')
        try:
            out = orig['add'](self, event, triggered=triggered, ray_paths=ray_paths, polarizations=polarizations,
                              events_thrown=events_thrown)
        except Exception as ex:
            if rec is not None:
                rec['res'] = 'raises'
                rec['exc'] = type(ex).__name__
                t['events'].append(rec)
            raise
        if rec is not None:
            rec['res'] = 'ok'
            t['events'].append(rec)
        return out

    def add_analysis_indices(self, *a, **kw):
        t = _trace(self)
        if t is not None:
            t['analysis_indices'] = True        # index rows written through an API outside the model
        return orig['add_analysis_indices'](self, *a, **kw)

    W.__init__, W.open, W.close, W.set_detector, W.add = init, open_, close, set_detector, add
    W.add_analysis_indices = add_analysis_indices


def pytest_unconfigure(config):
    out = os.environ.get('H5TRACE_OUT')
    if not out:
        return
    with open(out, 'w') as f:
        json.dump([t for t in _traces.values() if t['events']], f)
