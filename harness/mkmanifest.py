#!/usr/bin/env python3
"""Regenerates /verif/MANIFEST.json from the table below (single source of truth) and validates it."""
import json
import os
import sys

VERIF = os.path.dirname(os.path.dirname(os.path.abspath(__file__)))

TECH = 'TLA+ spec %s checked with TLC (exhaustive small config + seeded simulation); spec behaviours replayed step by step on the real classes (graph cover + simulation), state compared after every step'

CHECKS = {
    'C04': dict(
        spec='Signals.tla', design='4.1',
        text='Signals.tla models Signal/EmptySignal/FunctionSignal as objects over an explicit array store (aliasing is '
             'expressible); TLC checks LenInv, NoAlias, AddPointwise, AddRefused, EmptyNeutral, ScaleAll, '
             'FunctionReevaluates and the action property Independent on every history up to 4 calls, and every edge of '
             'the level-3 state graph plus seeded depth-14 simulations are executed on the real classes with times, '
             'values, value_type, caller arrays and np.shares_memory partition compared after each call.',
        note='Exact dyadic/integer data only; float64 caller arrays; Fourier resample and irrational grids not covered. '
             'Trusted: TLC, numpy.shares_memory, the driver projection.'),
    'C11': dict(
        spec='H5Store.tla + TraceH5Store.tla', design='4.6, 11.2',
        technique='TLA+ spec H5Store.tla checked with TLC; spec behaviours replayed into real HDF5 files (read back after every step); recorded traces of real writers (the repository tests + random workload) validated by TLC (TraceH5Store.tla)',
        text='H5Store.tla mirrors HDF5Writer.add stage by stage (counters, dataset growth, index writes, partial effects of '
             'rejected calls, append sessions); TLC checks LenIsAccepted, IndexInRange, RoundTrip and the action property '
             'RejectedAddIsInvisible over all histories of <=3 adds (<=2 quick) x 28 parameterisations x option families x '
             'failure placements x session splits; seeded simulations over 8 option families and 2304 add '
             'parameterisations are executed on the real writer and a flushed copy of the file is read back through '
             'HDF5Reader after every step. In the other direction, the writers used by the repository test suite and by an '
             'independent random workload are recorded from outside and each file life is validated by TLC against the '
             'writer model (acceptance of every add, exact index entries).',
        note='Data carry tags; only rows addressed by the index table are compared (orphan rows / counters are '
             'representation). Trusted: TLC, h5py flush+copy snapshot, driver expectations (expected_event).'),
    'C12': dict(
        spec='H5Store.tla (reader part)', design='4.6',
        text='The reader half of H5Store.tla models EventIterator chunk loading/splitting and HDF5Reader index/slice '
             'dispatch; TLC checks IterAgree, IndexAgree, SliceAgree on every reachable file of the small configuration '
             '(all slice_range, indices -n..n-1, all None/negative slice spellings, steps 1..n). The real reader is '
             'executed on those access paths (seeded sample per step in quick, all in thorough) for files produced by '
             'replayed behaviours incl. append sessions, and FileGenerator replays every closed file over 1-2 files and '
             'several chunk sizes.',
        note='FileGenerator count clause deliberately weak (DESIGN 4.6). Files without a particle table are outside the '
             'domain. Trusted: TLC, driver projection.'),
    'C06': dict(
        spec='FuncSignal.tla + LazyObj.tla', design='4.2',
        text='FuncSignal.tla models a function-backed signal as its definition (grid + components with offset, buffers, '
             'factor, product of delay/gain filters) plus the lazy cache, with each public operation clearing the cache '
             'exactly where the code does; TLC checks NoStale, ReadIsEager and Independent over all interleavings of reads '
             'with 12 operations up to depth 5 (2 objects); the level-4 graph and depth-16 simulations are executed on '
             'FunctionSignal and on FullThermalNoise / AskaryanSignal shadows, every read compared with the spec value '
             'and with a fresh copy.  LazyObj.tla behaviours are replayed on real tracers and paths; in the simulations a second, '
             'eagerly read real object receives the same operations and has every property group compared with a fresh '
             'object after every step (caches are then always filled when the next mutation arrives).',
        note='Filters restricted to integer-sample delays with integer gains (exact shift of the zero-padded FFT filter). '
             'Ray tracer / ray path objects: LazyObj.tla (attributes, property groups, cache) on four tracer kinds and three path '
             'kinds; re-used tracer objects are additionally exercised in C01 / C02.'),
    'C01': dict(
        spec='RayRel.tla (extends RaySymmetry.tla)', design='12.5',
        technique='TLA+ relation-algebra spec RayRel.tla (endpoint group of RaySymmetry.tla extended with the scaling law of '
                  'exponential-profile ice) checked with TLC; its behaviours replayed on the analytic and the numerical gradient-index '
                  'tracers with every solution compared with the predicted image of the base solution and checked for the relations '
                  'that hold between its own reported quantities',
        text='RayRel.tla adds ScaleUp / ScaleDown (endpoints x 2, profile constant a / 2: every ray scales, lengths and times x 2, '
             'directions unchanged) to Swap, Shift, Turn; TLC checks RConsistent (bookkeeping describes the endpoints; e = ups - '
             'downs) to depth 5 (7 thorough) over ten base endpoint pairs; depth-6 simulations are executed on SpecializedRayTracer in '
             'Antarctic, Greenland and a custom exponential profile and on BasicRayTracer: solution sets must be the predicted '
             'images; every solution: n sin(theta) equal at launch and reception, unit directions in the vertical plane of the '
             'endpoints, second solution up-then-down and above / not shorter than the first, first never down-then-up, path '
             'length >= straight distance, c tof / length between n(surface) and n(deepest endpoint); analytic = numerical tracer.',
        note='Decides necessary conditions of the property (invariants of a true ray, relations between reported quantities, '
             'covariance under the symmetry group incl. scaling, agreement of the two implementations); it does not integrate the '
             'reported ray, so "arrives at the receiver" and "equals the line integral" are decided only through those relations. '
             'Hamilton relation d(tof)/d(rho) = n sin(theta)/c between neighbouring receiver positions (Stretch) and a long-lived tracer with re-assigned endpoints are part of the replay. Open known findings D37 (analytic tracer loses precision near the vertical) and D39 (linearised launch-angle search next to direct_r_max). The clause "the first '
             'solution never turns over" is checked in the form that is true of rays (DESIGN 12.5).'),
    'C03': dict(
        spec='PropagateRel.tla', design='12.2',
        technique='TLA+ relation-algebra spec PropagateRel.tla (bilinear bookkeeping of signal and polarization combinations, grid '
                  'moves) checked with TLC; its behaviours replayed on RayPath.propagate of the specialized, numerical, uniform and '
                  'layered tracers with the output compared with the predicted combination of base outputs at every state',
        text='PropagateRel.tla writes the input signal and the polarization as integer combinations of basis elements, moves the '
             'grid by whole samples, and keeps separately the coefficient matrix M (and vector R) that predicts the output as a '
             'combination of the base outputs propagate(s_i, e_j); TLC checks Consistent (M = a x c, R = a) exhaustively to depth 4 '
             '(6 thorough) for 4 tracers x 6 geometries (one exactly vertical) x attenuation interpolation off / 0.1; depth-7 '
             'simulations are executed on the real paths: s, p and unpolarized outputs must equal the predicted combinations '
             '(1e-9), lie on the input grid + time of flight, carry no more energy than |c|^2 times the input; polarization '
             'vectors unit, orthogonal, transverse; attenuation in (0,1], even in f, not growing with |f|; |Fresnel| <= 1.  The '
             'bookkeeping without bounds (PropagateRelInd.tla) is an inductive invariant discharged with Apalache in every run.',
        note='Decides linearity in signal and polarization, time invariance / exact delay, the energy inequality, the polarization '
             'vector clauses and the range / monotonicity of the attenuation factor on a 10-point frequency lattice. Does not decide '
             'that the attenuation equals the line integral of 1/L_att, nor the agreement between interpolated and exact '
             'attenuation (numerical). Open known finding D31 (layered transmission coefficients exceed 1).'),
    'C07': dict(
        spec='AskaryanRel.tla', design='12.1',
        technique='TLA+ relation-algebra spec AskaryanRel.tla (input transformations with exactly predicted effect on the output) '
                  'checked with TLC; its behaviours replayed on the real ZHS / AVZ / ARZ models on exact (dyadic) grids with the '
                  'field compared with the base field through the spec bookkeeping at every state',
        text='AskaryanRel.tla generates sequences of input transformations (distance times k, angle negated, grid and shower '
             'time moved together, shower time moved by whole samples, energy times k for an EM shower on the cone, zero shower '
             'energy by energy or by fractions, angle-lattice scan) and keeps, separately from the inputs, the predicted relation '
             'of the current field to the base field (scale fraction, shift in samples, zero flag); TLC checks Consistent '
             'exhaustively to depth 4 (5 thorough) over 3 models x 2 lengths (parity) x 2 steps x 3 EM/hadronic splits x 9 angles; '
             'depth-6 simulations (5 base energies from 1e9 GeV down to below every critical energy, shower times up to and beyond the window edges, grid offsets to 1e6 samples) are executed on the real models with every field compared (1e-9 of the peak), of the right '
             'length and finite.  The algebra without its bounds (AskaryanRelInd.tla: any integer factors and moves, any length) has '
             'Consistent as an inductive invariant, discharged with Apalache in every run.',
        note='Decides the exact relational clauses (1/R, |angle|, joint shift, whole-sample shift, finiteness, zero energy, on-cone '
             'EM energy proportionality, through the particle energy and through the EM fraction; the cone of the ice handed to the model, two indices) and, on a 0.02 rad lattice only, largest-on-cone and monotone fall-off (on a 0.005 rad lattice within 0.5 %). Between lattice '
             'points the fall-off clause is numerical and is not decided; the ARZ model violates it on a 0.005 rad lattice (open '
             'known finding D29). Grids are dyadic (2^-31 s, 2^-30 s) so that the arithmetic is exact; uniform ice n = 1.78.'),
    'C09': dict(
        spec='AntennaHits.tla', design='4.4',
        text='AntennaHits.tla models the incremental caches behind all_waveforms / waveforms / is_hit, full_waveform over '
             'arbitrary windows, clear(reset_noise) and the noise master generation; TLC checks CachesOrdered, OnePerSignal, '
             'TriggeredAreExactlyThose, FullIsSuperposition, ClearIsInit, StaleOnlyByD9, NoiseMasterUntilReset exhaustively '
             '(3 signals, depth 7) for antenna, system and noisy variants; graph cover + depth-18 simulations run on a '
             'threshold Antenna, an AntennaSystem with delaying front end (two lead-in times) and noisy antennas.',
        note='Open known finding D9 (query-receive(overlap)-query) is accepted only where the spec predicate Stale holds. '
             'Noise is checked as consistency of interpretation, not by value.'),
    'C10': dict(
        spec='Kernel.tla + TraceKernel.tla', design='4.5',
        technique='TLA+ spec Kernel.tla checked with TLC over all scenarios; spec behaviours replayed on the real EventKernel with scripted components; recorded runs on shipped components validated by TLC trace validation (TraceKernel.tla)',
        text='Kernel.tla models the loop nest of EventKernel.event with one action per component call over a scenario '
             '(weights, weight cut form, solutions per particle/antenna, off-cone and refused solutions, trigger form, '
             'writer); TLC checks OneSignalPerSolution, OffConeOnlySubstitutes, PathsPolsAligned, ModelCalledUnlessOff, '
             'WriterGetsWhatAntennasGot, TriggerIsFunctionOfAntennas, ReturnShape on every scenario (19k quick / all '
             'thorough). Thousands of scenarios are executed on the real kernel with scripted components, and real runs '
             'over every shipped tracer x ice x Askaryan model x generator (settings cycled) are recorded through proxies '
             'and validated event by event by TLC; an exception escaping event() is an unmatched event.',
        note='The scenario of a recorded run is derived from the observation (solution counts from the real tracer). '
             'Physical correctness of the signals is C01/C03/C07 material and not examined.'),
    'C15': dict(
        spec='EarthRel.tla', design='12.4',
        technique='TLA+ spec EarthRel.tla (integer-radius shell dispatch table + relation algebra of slant-depth configurations) '
                  'checked with TLC; its behaviours replayed on PREM and CoreMantleCrustModel',
        text='EarthRel.tla part A: Shell(r) over integer radii (metres) with half-open shells; TLC checks ShellsPartition and '
             'ProbeShells; every Probe (radii one below / at / one above every boundary, interior, surface, outside; five input '
             'forms) is executed on density() and each value compared with the published law of the predicted shell, 0 outside, '
             'shape preserved.  Part B: slant-depth configurations [endpoint, zenith index, quarter turns, direction length] with '
             'ScaleDir, Turn (unchanged) and Dip (not smaller), Consistent (dips = zen - zen0); replayed with two steps; chords '
             'from above the surface that do not point below the horizon give exactly 0.',
        note='Decides the piecewise dispatch (incl. half-open boundaries, zero outside, scalar = array), independence of the '
             'direction length and of azimuth (quarter turns), zero for chords that miss the Earth, monotone growth on a lattice '
             'of ten zenith angles. Relations are compared up to one end cell of the trapezoid sum (100 x step x 3 g/cm^2), the '
             'discretisation error the property allows. Not decided: accuracy and convergence of the sum against the true chord '
             'integral (numerical).'),
    'C17': dict(
        spec='NoiseRel.tla', design='12.3',
        technique='TLA+ spec NoiseRel.tla of noise objects as (basis, window, delay) with symbolic values, checked with TLC; its '
                  'behaviours replayed on FullThermalNoise / FFTThermalNoise with every sample compared with the sum of the cosines '
                  'published by the basis',
        text='NoiseRel.tla models a noise object as [basis, window (first tick, length, stride), delay]; WithTimes, Shift, Copy, '
             'Rebuild (same arguments + published basis) and Fresh (independent basis) act on a pool of objects; a sample shows the '
             'symbolic value <<basis, tick - delay>>.  TLC checks SharedTicksAgree, ShiftKeepsSamples, OthersUntouched, '
             'BasesCounted exhaustively to depth 4 (5 thorough); depth-6 simulations over 2 implementations x 6 bands x 4 '
             'amplitude specifications x 3 uniqueness factors x 2 lengths x 2 rms modes are executed on the real classes: every '
             'sample of every object after every step equals the sum of the published cosines at (tick - delay) to 1e-9.',
        note='Decides: exact sum of published cosines (incl. periodic continuation, far windows, half-sample and 3/2-sample '
             'strides for the full implementation; construction-lattice samples for the FFT implementation), frequencies in band, '
             'rms value (given or sqrt(k T R bandwidth)), unit amplitudes -> rms exactly over one FFT period, same basis -> same '
             'waveform, independent objects differ, function of absolute time under with_times / shift / copy. Not decided: '
             'statistical clauses (Rayleigh amplitudes give the rms on average). The antenna noise master is exercised in C09, '
             'stored bases in C11.'),
    'C19': dict(
        spec='Detector.tla', design='4.7',
        text='Detector.tla models detectors as a heap of antennas, (nested) lists, strings, stations and combined detectors '
             'with +, +=, sum building subsets exactly as the code does; TLC checks EachOnce, PlusIsConcat, SumIsConcat, '
             'NoAntennaAboveIce, TriggeredIffAnyHit, ClearAll and RejectedLeavesUnchanged over all histories up to depth 5 '
             '(6 thorough). Graph cover + depth-16 simulations run on real Detector subclasses that record received '
             'keywords; after every step every detector is iterated / measured / indexed and compared with Flat, hit '
             'states and keyword dispatch of build and trigger calls are compared, and associativity of sum / + is '
             'checked on the real objects.',
        note='Antennas noiseless (Monte-Carlo truth equals hit); operands of + disjoint; keyword sets that the code '
             'documents as TypeError (identical subsets, keyword nobody accepts) are excluded.'),
    'C02': dict(
        spec='RaySymmetry.tla', design='4.11',
        text='RaySymmetry.tla generates the orbits of lattice endpoint pairs under swap, horizontal shifts and quarter turns and '
             'keeps, separately from the endpoints, the bookkeeping (swapped, turns) that predicts how the solution set must '
             'transform; TLC checks Consistent and StratifiedInvariants exhaustively to depth 5. The orbits are evaluated on '
             'SpecializedRayTracer (Antarctic, Arasim, Greenland ice), UniformRayTracer (2 reflections), LayeredRayTracer and '
             'BasicRayTracer: at every state lengths, times of flight, attenuations and directions must be the predicted image '
             'of the base solutions, exists <=> solutions non-empty, gradient tracers report 0 or 2 solutions.',
        note='The model fixes only the algebra; the substance is the replay. Tolerances 1e-6 (root search), 1e-4 (numerical '
             'tracer), attenuation of uniform/layered paths 5e-3 (one-sided Riemann sum). Arbitrary rotation angles and '
             'grazing geometries not covered. Open known finding D13 (Greenland deep endpoints).'),
    'C18': dict(
        spec='UniformImage.tla + LayeredPaths.tla', design='4.11',
        text='UniformImage.tla walks a ray through a uniform slab boundary by boundary and checks that the walked vertical '
             'travel equals both the formula used by the code and the image-method mirror construction (1662 Pythagorean '
             'cases, 0..3 reflections); LayeredPaths.tla walks rays with a rational Snell invariant through stacks of uniform '
             'layers (transmission, reflection, arrival). Every behaviour is an exact ray: UniformRayTracer / LayeredRayTracer '
             'are run on it under lattice azimuths, offsets, refractive indices and boundary-index settings; length, tof = nL/c, '
             'directions, reflection points, solution counts and leg chains are compared, every returned layered solution is '
             'checked to be a continuous Snell chain, and split media are compared with the unsplit tracers.',
        note='Exactness by construction (Pythagorean / rational lattices). Exponential layers only through split equivalence of '
             'amplitude-carrying solutions (tolerance 1e-4). Open known finding D23 (endpoint exactly on the reflecting boundary).'),
    'C05': dict(
        spec='Filter.tla', design='4.3',
        text='Filter.tla models filter_frequencies as the zero-padded circular convolution the code performs (AsImpl) next to '
             'the linear convolution the property demands (Expected) for integer FIR kernels; TLC checks Linear (a, b, a+2b '
             'carried through the same filters), NoWrap (taps within +-N never wrap), Unit, Passive (single taps) and '
             'PureDelayShifts exhaustively for N in 3..4 and by simulation up to N = 7 and 3 successive filters; the '
             'behaviours are executed on real signals over six time grids (dt 1e-10..2 s, negative / huge offsets) with '
             'vectorised, scalar-only and positive-frequency-only (force_real) responses, outputs compared with the integers.',
        note='Only integer FIR responses (exact); Butterworth / attenuation curves, Hermitian symmetrisation of genuinely complex '
             'responses and the energy clause for arbitrary |H| <= 1 are not decided. Open known finding D10 (delay beyond N wraps).'),
    'C14': dict(
        spec='EventTree.tla', design='4.9',
        text='EventTree.tla models Event trees (insertion-ordered particle list + child index lists) with add_children by list '
             'or single particle and foreign parents, and the shower-fraction decision of choose_shower_fractions (kind x '
             'flavour x inelasticity x secondaries, retry loop over candidate secondary showers); TLC checks IterOnce, '
             'OneParent, LevelsPartition, ChildrenComeLater, SumAtMostOne, CCeSumsToOne, NCAllHadronic on all trees of <= 6 '
             'particles and all 840 decision cases; every edge of the state graph is executed on pyrex.Event / Particle / '
             'GQRSInteraction / CTWInteraction and iteration, len, get_children, get_parent, get_from_level and the fractions '
             'are compared.',
        note='Only the discrete core: distributions of interaction type and inelasticity, cross-section values, monotonicity and '
             'interaction lengths are numerical and NOT decided by this check. The secondary sampler is scripted via subclass.'),
    'C13': dict(
        spec='Generators.tla + ExitPoints.tla', design='4.8',
        text='Generators.tla models throw counting of the random generators (one count per throw, rejected throws included, '
             'shadow on/off, survival weight of the returned particle), ListGenerator replay (cycle / stop, assignable count) and '
             'the particle-type threshold table; ExitPoints.tla computes entry and exit points of 5076 lattice vertex/direction '
             'pairs through a box and a cylinder in exact rational arithmetic and checks they lie on the boundary with the '
             'vertex strictly between. Every edge / case is executed on CylindricalGenerator, RectangularGenerator and '
             'ListGenerator (survival scripted through the earth model, random numbers scripted for the type table).',
        note='Only the state-machine and lattice-geometry core. NOT decided: uniformity of vertices, isotropy of directions, '
             'flavour / nu-nubar frequencies, energies, and the numerical weight formulas -- a change there is invisible to '
             'this check.'),
    'C08': dict(
        spec='AntennaResponse.tla', design='4.12',
        text='AntennaResponse.tla enumerates 24 lattice rotations x arrival directions x polarizations x value types x antenna '
             'classes; TLC checks that the arrival direction in the antenna frame and the projection of the polarization on '
             'the antenna axis do not depend on the rotation (Covariant), that the rotated axes stay orthonormal and that the '
             'antenna-factor division applies exactly to fields. Each case is executed on Antenna, a probe subclass with '
             'angle- and polarization-dependent gains, DipoleAntenna and AntennaSystem: response factor, rejection of other '
             'value types, output type, linearity, receive (single and list), dipole sin(theta) and axis-projection gains.',
        note='Unit frequency response so that values are exact; linearity through a non-trivial frequency response is decided '
             'by C05 for FIR responses only. Arbitrary (non-lattice) rotations not covered.'),
    'C16': dict(
        spec='IceDispatch.tla', design='4.10',
        text='IceDispatch.tla specifies the region table (closed valid range, outside indices), the layer lookup of stacks '
             '(upper bound inclusive, lowest bound owned by the lowest layer) and the scalar/row/column/matrix shape table; '
             'TLC checks totality and uniqueness on a depth lattice containing every bound and both neighbours. All cases are '
             'evaluated on AntarcticIce, ArasimIce, GreenlandIce, UniformIce (sentinel outside indices) and LayeredIce: '
             'region, scalar/array agreement, contains, layer_at_depth, attenuation shapes and entry-wise agreement with '
             'scalar evaluation, positivity and finiteness.',
        note='Only the dispatch structure. NOT decided: monotonicity of n(z), depth_with_index as inverse, gradient as '
             'derivative, numerical values of attenuation lengths.'),
}

NOT_APPLICABLE = {
    'C20': 'static property of the source text against library versions; nothing evolves (the import defect D0 it describes was repaired as a precondition, see known_findings.json)',
}
NOT_BUILT = 'specification module not built yet in this round (see DESIGN.md section 9); not claimed rather than claimed with a hollow check'


def main():
    props = [json.loads(l)['id'] for l in open(os.path.join(VERIF, 'properties.jsonl'))]
    checks = []
    for pid in props:
        if pid not in CHECKS:
            continue
        c = CHECKS[pid]
        checks.append({
            'property_id': pid,
            'quick_cmd': 'bin/check %s --tier quick' % pid,
            'thorough_cmd': 'bin/check %s --tier thorough' % pid,
            'evidence_file': '/verif/evidence/%s.json' % pid,
            'replay_cmd_template': 'bin/check %s --replay {path}' % pid,
            'engine': 'tlc+replay',
            'level_claimed': {'category': 'model_checking', 'text': c['text'], 'design_ref': c['design']},
            'level_note': c['note'],
            'technique': c.get('technique', TECH % c['spec']),
        })
    na = []
    for pid in props:
        if pid in CHECKS:
            continue
        na.append({'property_id': pid, 'reason': NOT_APPLICABLE.get(pid, NOT_BUILT)})
    m = {
        'version': 1,
        'setup_cmd': 'mkdir -p /verif/.work /verif/evidence /verif/replays && /venv/bin/python -c "import numpy, h5py, scipy" && tlc -h >/dev/null 2>&1; true',
        'hooks': {
            'guard': 'PYREX_VERIF',
            'enable': 'no source hooks: conformance observes public API state only (DESIGN.md 2.3); the guard name is reserved and unused',
            'baseline_off_cmd': 'cd /repo && /venv/bin/python -m pytest -ra -q -p no:cacheprovider --timeout=900 --continue-on-collection-errors',
            'source_commits': [],
            'add_only': True,
        },
        'engines': [{'name': 'tlc+replay', 'path': '/verif/bin/check',
                     'serves_properties': sorted(CHECKS),
                     'kind_free_text': 'TLC 1.8 model checking of spec/*.tla; spec->code replay (graph cover, simulation) and code->spec trace validation via harness/'}],
        'checks': checks,
        'not_applicable': na,
        'notes': 'Specs in spec/, harness in harness/, known findings in known_findings.json, seeded mutations in seeded/. Exit 2 = machinery failure.',
    }
    path = os.path.join(VERIF, 'MANIFEST.json')
    json.dump(m, open(path, 'w'), indent=1)
    try:
        import jsonschema
        jsonschema.validate(m, json.load(open('/root/.vp/MANIFEST.schema.json')))
        print('MANIFEST.json valid: %d checks, %d not_applicable' % (len(checks), len(na)))
    except ImportError:
        print('jsonschema not available; not validated')


if __name__ == '__main__':
    main()
