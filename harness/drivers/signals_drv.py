"""Driver binding spec/Signals.tla to pyrex.signals (C04).

Real time = tick / 2.  Values are integers in the spec and exact floats in the code.
After every step: times, values, value_type of every tracked object and of every
caller-owned array are compared with the spec state, and no two tracked arrays may
share memory (np.shares_memory).
"""
import numpy as np
from pyrex.signals import Signal, EmptySignal, FunctionSignal
from vlib.core import Divergence, Known

TOL = 1e-9


def _fn(kind, scale=1.0):
    if kind == 'lin':
        return lambda t: 8.0 * (np.asarray(t) / scale)
    if kind == 'step':
        return lambda t: 16.0 * (np.asarray(t) >= 0)
    if kind == 'tri':
        return lambda t: 16.0 * np.maximum(0, 4 - np.abs(2 * np.asarray(t) / scale))
    if kind == 'sstep':
        def sstep(t):
            if np.ndim(t) != 0:
                raise TypeError('scalar only')
            return 8.0 if 2 * t / scale >= 2 else 0.0
        return sstep
    raise KeyError(kind)


def ticks(seq, scale=1.0):
    return np.array([x / 2.0 * scale for x in seq], dtype=float)


class SignalsDriver:
    def __init__(self, scale=1.0):
        """scale: seconds per time unit (1.0, or 2**-30 ~ 0.93 ns: dyadic, so all grid arithmetic stays exact)"""
        self.scale = scale
        self.objs = []
        self.ext = {}       # array id -> caller's ndarray
        self._tids = set()  # ids of caller arrays that hold times

    def cleanup(self):
        self.objs = []
        self.ext = {}
        self._tids = set()

    def reset(self, state):
        self.cleanup()

    # ------------------------------------------------------------------ step
    def step(self, label, st):
        last = st['last']
        op = last['op']
        if 'et' in last:
            self._tids.add(last['et'])
        raised = None
        res = None
        try:
            if op == 'NewSignal':
                t = ticks(last['g'], self.scale)
                v = np.array(last['v'], dtype=float)
                self.ext[last['et']] = t
                self.ext[last['ev']] = v
                res = Signal(t, v, value_type=last['vt'] or None)
            elif op == 'NewEmpty':
                t = ticks(last['g'], self.scale)
                self.ext[last['et']] = t
                res = EmptySignal(t, value_type=last['vt'] or None)
            elif op == 'NewFunction':
                t = ticks(last['g'], self.scale)
                self.ext[last['et']] = t
                res = FunctionSignal(t, _fn(last['fn'], self.scale), value_type=last['vt'] or None)
            elif op == 'Copy':
                res = self.objs[last['a'] - 1].copy()
            elif op == 'Add':
                res = self.objs[last['a'] - 1] + self.objs[last['b'] - 1]
            elif op == 'RAdd0':
                res = 0 + self.objs[last['a'] - 1]
                if res is not self.objs[last['a'] - 1]:
                    raise Divergence('RAdd0', 'the signal itself', 'a different object')
                res = None
            elif op == 'Mul':
                o = self.objs[last['a'] - 1]
                res = (float(last['k']) * o) if last['refl'] else (o * float(last['k']))
            elif op == 'Div':
                res = self.objs[last['a'] - 1] / float(last['k'])
            elif op == 'IMul':
                o = self.objs[last['a'] - 1]
                o2 = o
                o2 *= float(last['k'])
                if o2 is not o:
                    raise Divergence('IMul', 'in place', 'new object')
            elif op == 'IDiv':
                o = self.objs[last['a'] - 1]
                o2 = o
                o2 /= float(last['k'])
                if o2 is not o:
                    raise Divergence('IDiv', 'in place', 'new object')
            elif op == 'Shift':
                self.objs[last['a'] - 1].shift(last['d'] / 2.0 * self.scale)
            elif op == 'WithTimes':
                t = ticks(last['g'], self.scale)
                self.ext[last['et']] = t
                res = self.objs[last['a'] - 1].with_times(t)
            elif op == 'MutateExt':
                a = self.ext[last['e']]
                # entries of time arrays are ticks in the spec
                a[last['n'] - 1] = last['x'] / 2.0 * self.scale if self._is_time(last['e'], st) else float(last['x'])
            elif op == 'PokeValues':
                self.objs[last['a'] - 1].values[last['n'] - 1] = float(last['x'])
            else:
                raise Divergence('op', 'known op', op)
        except ValueError as e:
            raised = e
        if last.get('res') == 'raises':
            if raised is None:
                raise Divergence(op, 'ValueError (different grids / incompatible types)', 'no exception')
            return self.compare(st)
        if raised is not None:
            raise Divergence(op, 'no exception', repr(raised))
        if last.get('res') == 'new':
            if res is None or any(res is o for o in self.objs):
                raise Divergence(op, 'a new object', 'an existing object')
            self.objs.append(res)
        self.compare(st)

    def _is_time(self, aid, st):
        # caller arrays registered under 'et' hold times; 'ev' values
        return aid in self._tids

    # --------------------------------------------------------------- compare
    def compare(self, st):
        arr = st['arr']
        objs = st['objs']
        if len(objs) != len(self.objs):
            raise Divergence('objects', len(objs), len(self.objs))
        tracked = []
        for i, (so, ro) in enumerate(zip(objs, self.objs)):
            et = [x / 2.0 * self.scale for x in arr[so['ta'] - 1]]
            if len(ro.times) != len(et) or not np.allclose(ro.times, et, rtol=0, atol=TOL * self.scale):
                raise Divergence('objs[%d].times' % (i + 1), et, list(map(float, ro.times)))
            ev = spec_values(so, arr)
            try:
                rv = np.asarray(ro.values, dtype=float)
            except TypeError as e:
                raise Divergence('objs[%d].values' % (i + 1), ev, 'TypeError: %s' % e)
            if len(rv) != len(ro.times):
                raise Divergence('objs[%d] len(values)' % (i + 1), len(ro.times), len(rv))
            if len(rv) != len(ev) or not np.allclose(rv, ev, rtol=0, atol=TOL * (1 + max(map(abs, ev), default=0))):
                raise Divergence('objs[%d].values' % (i + 1), ev, list(map(float, rv)))
            if ro.value_type.value != so['vt']:
                raise Divergence('objs[%d].value_type' % (i + 1), so['vt'], ro.value_type.value)
            tracked.append(('objs[%d].times' % (i + 1), ro.times))
            tracked.append(('objs[%d].values' % (i + 1), ro.values))
        for aid, a in self.ext.items():
            exp = arr[aid - 1]
            sc = 2.0 / self.scale if aid in self._tids else 1.0
            if len(a) != len(exp) or not np.allclose(a * sc, exp, rtol=0, atol=TOL):
                raise Divergence('caller array %d' % aid, list(exp), list(map(float, a * sc)))
            tracked.append(('caller array %d' % aid, a))
        for i in range(len(tracked)):
            for j in range(i + 1, len(tracked)):
                if tracked[i][1].size and tracked[j][1].size and np.shares_memory(tracked[i][1], tracked[j][1]):
                    raise Divergence('alias', 'no shared memory', '%s shares memory with %s' % (tracked[i][0], tracked[j][0]))


def spec_values(so, arr):
    if so['cls'] != 'Function':
        return [float(x) for x in arr[so['va'] - 1]]
    out = []
    for t in arr[so['ta'] - 1]:
        s = 0
        for c in so['comps']:
            s += c['fac'] * spec_F(c['fn'], t - c['t0'])
        out.append(float(s))
    return out


def spec_F(fn, x):
    if fn == 'lin':
        return 4 * x
    if fn == 'step':
        return 16 if x >= 0 else 0
    if fn == 'tri':
        return 0 if abs(x) > 4 else 16 * (4 - abs(x))
    if fn == 'sstep':
        return 8 if x >= 2 else 0
    raise KeyError(fn)
