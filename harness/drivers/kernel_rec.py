"""Recording proxies around the real, shipped components of EventKernel (C10, code -> spec).

record_events(combo, seed) runs the real kernel on real components and returns one trace per
event(): {'sc': scenario derived from the observation, 'events': observable events, 'combo': ...}
to be validated by TLC against spec/TraceKernel.tla.
"""
import os
import numpy as np
import pyrex
from pyrex.signals import EmptySignal
from pyrex.kernel import EventKernel
from pyrex.io import File
from pyrex.internal_functions import normalize
from pyrex.custom import layered_ice
from drivers.kernel_drv import collapse

SIGNAL_TIMES = np.linspace(-20e-9, 80e-9, 256, endpoint=False)


class Ctx:
    def __deepcopy__(self, memo):
        return self

    def __init__(self):
        self.log = []
        self.event = None
        self.tracer = None       # the tracer proxy constructed last
        self.tracers = []        # all tracer proxies of the current event


class RecGen:
    def __init__(self, real, ctx):
        self.real, self.ctx = real, ctx

    @property
    def count(self):
        return self.real.count

    def __getattr__(self, name):
        if name == 'real' or name.startswith('__'):
            raise AttributeError(name)
        return getattr(self.real, name)

    def create_event(self):
        self.ctx.log.append({'ev': 'CreateEvent'})
        self.ctx.event = self.real.create_event()
        self.ctx.particles = list(self.ctx.event)
        return self.ctx.event


class RecPath:
    def __init__(self, real, ctx, p, a, s):
        object.__setattr__(self, '_r', (real, ctx, p, a, s))

    def __getattr__(self, name):
        if name == '_r' or name.startswith('__'):
            raise AttributeError(name)
        return getattr(self._r[0], name)

    def __deepcopy__(self, memo):
        return self

    def propagate(self, *args, **kw):
        real, ctx, p, a, s = self._r
        ctx.log.append({'ev': '_Propagate', 'p': p, 'a': a, 's': s, 'interp': kw.get('attenuation_interpolation')})
        return real.propagate(*args, **kw)


def make_rec_tracer(real_cls, ctx, antennas, extra_kw):
    class RecTracer:
        def __init__(self, from_point, to_point, ice_model=None):
            self.real = real_cls(from_point, to_point, ice_model=ice_model, **extra_kw)
            ps = [i for i, part in enumerate(ctx.particles) if part.vertex is from_point]
            if not ps:
                ps = [i for i, part in enumerate(ctx.particles) if np.array_equal(part.vertex, from_point)]
            as_ = [i for i, ant in enumerate(antennas) if ant.position is to_point]
            if not as_:
                as_ = [i for i, ant in enumerate(antennas) if np.array_equal(ant.position, to_point)]
            self.p, self.a = ps[0] + 1, as_[0] + 1
            sols = list(self.real.solutions) if self.real.exists else []
            self.n_real = len(sols)
            self.exists_real = bool(self.real.exists)
            self.paths = [RecPath(x, ctx, self.p, self.a, k + 1) for k, x in enumerate(sols)]
            ctx.log.append({'ev': 'Tracer', 'p': self.p, 'a': self.a, 'n': len(sols)})
            ctx.tracer = self
            ctx.tracers.append(self)

        @property
        def exists(self):
            return self.real.exists

        @property
        def solutions(self):
            return self.paths

        def __getattr__(self, name):
            if name == 'real' or name.startswith('__'):
                raise AttributeError(name)
            return getattr(self.real, name)

        def __deepcopy__(self, memo):
            return self
    RecTracer.__name__ = 'Rec' + real_cls.__name__
    return RecTracer


def make_rec_model(real_model, ctx):
    def model(**kw):
        tr = ctx.tracer
        cands = [k for k, x in enumerate(tr.paths) if x.path_length == kw['viewing_distance']]
        s = cands[0] + 1 if cands else 0
        p = [i for i, part in enumerate(ctx.particles) if part is kw['particle']][0] + 1
        entry = {'ev': '_Model', 'p': p, 'a': tr.a, 's': s, 'raised': False}
        ctx.log.append(entry)
        try:
            return real_model(**kw)
        except ValueError:
            entry['raised'] = True
            raise
    return model


class RecAntenna(pyrex.Antenna):
    def bind(self, ctx, a):
        self._ctx, self._a = ctx, a

    def receive(self, signal, direction=None, polarization=None, force_real=False):
        ctx = self._ctx
        sigs = signal if isinstance(signal, (list, tuple)) else [signal]
        tr = ctx.tracer
        t0 = sigs[0].times[0] - SIGNAL_TIMES[0]
        s, grid_ok = 0, False
        if tr is not None and tr.paths:
            k = int(np.argmin([abs(x.tof - t0) for x in tr.paths]))
            s = k + 1
            tof = tr.paths[k].tof
            grid_ok = all(len(x.times) == len(SIGNAL_TIMES) and
                          np.allclose(x.times, SIGNAL_TIMES + tof, rtol=0, atol=1e-6 * (SIGNAL_TIMES[1] - SIGNAL_TIMES[0]))
                          for x in sigs)
            # the antenna is told the direction of travel of the signal as it arrives: the path's received direction
            if direction is not None:
                grid_ok = grid_ok and bool(np.allclose(np.asarray(direction, dtype=float),
                                                       np.asarray(tr.paths[k].received_direction, dtype=float), rtol=0, atol=1e-9))
        kind = 'empty' if all(isinstance(x, EmptySignal) for x in sigs) else 'pulse'
        ctx.log.append({'ev': '_Receive', 'a': self._a, 'p': tr.p if tr else 0, 's': s, 'kind': kind,
                        'grid_ok': bool(grid_ok and tr is not None and tr.a == self._a)})
        return super().receive(signal, direction=direction, polarization=polarization, force_real=force_real)


class RecWriter:
    def __init__(self, real, ctx):
        self.real, self.ctx = real, ctx

    def __getattr__(self, name):
        if name == 'real' or name.startswith('__'):
            raise AttributeError(name)
        return getattr(self.real, name)

    def add(self, event=None, triggered=None, ray_paths=None, polarizations=None, events_thrown=1):
        def key(x):
            r = getattr(x, '_r', None)
            return [r[2], r[4]] if r else [0, 0]
        tform = 'none' if triggered is None else ('dict' if isinstance(triggered, dict) else 'func')
        self.ctx.log.append({'ev': 'WriterAdd', 'paths': [[key(x) for x in lst] for lst in ray_paths],
                             'pols': [len(lst) for lst in polarizations], 'thrown': int(events_thrown),
                             'tform': tform,
                             'tglobal': bool(triggered['global']) if tform == 'dict' else (bool(triggered) if tform == 'func' else False),
                             'textra': bool(triggered.get('extra', False)) if tform == 'dict' else False,
                             'same_event': event is self.ctx.event})
        return self.real.add(event=event, triggered=triggered, ray_paths=ray_paths, polarizations=polarizations,
                             events_thrown=events_thrown)


def trigger_functions(form, ctx):
    def glob(ants):
        ctx.log.append({'ev': '_Trigger', 'key': 'global'})
        return any(len(a.signals) > 0 for a in ants)

    def extra(ants):
        ctx.log.append({'ev': '_Trigger', 'key': 'extra'})
        return any(len(a.signals) > 1 for a in ants)
    if form == 'none':
        return None
    if form == 'func':
        return glob
    return {'global': glob, 'extra': extra}


# --------------------------------------------------------------------------- components
def ice_models():
    return {
        'antarctic': lambda: pyrex.ice_model.AntarcticIce(),
        'arasim': lambda: pyrex.ice_model.ArasimIce(),
        'greenland': lambda: pyrex.ice_model.GreenlandIce(),
        'uniform': lambda: pyrex.ice_model.UniformIce(1.5, valid_range=(-2000, 0)),
        'layered_uniform': lambda: layered_ice.LayeredIce([pyrex.ice_model.UniformIce(1.4, valid_range=(-300, 0)),
                                                            pyrex.ice_model.UniformIce(1.6, valid_range=(-2000, -300))]),
    }


def tracers():
    from pyrex import ray_tracing as rt
    return {
        'specialized': (rt.SpecializedRayTracer, {}, ['antarctic', 'arasim', 'greenland']),
        'basic': (rt.BasicRayTracer, {}, ['antarctic']),
        'uniform': (rt.UniformRayTracer, {}, ['uniform']),
        'layered': (layered_ice.LayeredRayTracer, {}, ['layered_uniform']),
    }


def signal_models():
    from pyrex import askaryan
    return {'arz': askaryan.ARVZAskaryanSignal, 'avz': askaryan.AVZAskaryanSignal, 'zhs': askaryan.ZHSAskaryanSignal}


def rotate_about(v, axis, angle):
    axis = axis / np.linalg.norm(axis)
    return v * np.cos(angle) + np.cross(axis, v) * np.sin(angle) + axis * np.dot(axis, v) * (1 - np.cos(angle))


def crafted_events(tracer_cls, tkw, ice, antennas, rng, offcone=40):
    """list events with on-cone, off-cone, shadowed / far and below-weight particles, multi-particle events"""
    events = []
    a0 = antennas[0].position
    for case in range(7):
        vertex = np.array([float(rng.choice([60, 150, 300])), float(rng.choice([-40, 0, 80])), float(rng.choice([-150, -400, -800]))])
        if case == 4:
            vertex = np.array([6000.0, 0.0, -30.0])        # far and shallow: shadowed in gradient ice
        if case == 6:
            vertex = np.array([float(a0[0]), float(a0[1]), float(a0[2]) - 250.0])   # exactly below antenna 0: vertical ray
        tr = tracer_cls(vertex, a0, ice_model=ice, **tkw)
        n = ice.index(vertex[2])
        theta_c = np.arccos(1 / n)
        if tr.exists and len(tr.solutions) > 0:
            e = np.array(tr.solutions[0].emitted_direction, dtype=float)
        else:
            e = normalize(a0 - vertex)
        perp = np.cross(e, [0.0, 0.0, 1.0])
        if np.linalg.norm(perp) < 1e-9:
            perp = np.array([1.0, 0.0, 0.0])
        on = rotate_about(e, perp, theta_c)
        direction = on if case in (0, 1, 3, 4, 5, 6) else -e          # case 2: off-cone
        p1 = pyrex.Particle('nu_e', vertex, direction, 1e9, interaction_type='cc')
        p1.interaction.em_frac, p1.interaction.had_frac = 0.7, 0.3
        p1.survival_weight, p1.interaction_weight = 1.0, 1.0
        parts = [p1]
        if case in (1, 5):
            p2 = pyrex.Particle('nu_mu', vertex + np.array([5.0, 5.0, -20.0]), direction, 1e8, interaction_type='nc')
            p2.interaction.em_frac, p2.interaction.had_frac = 0.0, 0.5
            p2.survival_weight, p2.interaction_weight = (0.2, 1.0) if case == 1 else (1.0, 0.4)
            parts.append(p2)
        if case == 3:
            p1.survival_weight = 0.2                                # below the weight cut
        events.append(pyrex.Event(parts))
    # case 7: two particles at very different depths (different Cherenkov angles); the deep one is viewed just inside its own
    # off-cone window, on the side away from the shallow particle's Cherenkov angle
    off = 40.0 if offcone is None else float(offcone)
    v1, v2 = np.array([150.0, 0.0, -150.0]), np.array([200.0, 40.0, -1500.0])
    parts = []
    for v, extra in ((v1, 0.0), (v2, np.radians(off - 0.7))):
        tr = tracer_cls(v, a0, ice_model=ice, **tkw)
        e = np.array(tr.solutions[0].emitted_direction, dtype=float) if (tr.exists and len(tr.solutions) > 0) else normalize(a0 - v)
        perp = np.cross(e, [0.0, 0.0, 1.0])
        if np.linalg.norm(perp) < 1e-9:
            perp = np.array([1.0, 0.0, 0.0])
        psi = min(np.arccos(1 / ice.index(v[2])) + extra, np.pi)
        p = pyrex.Particle('nu_e', v, rotate_about(e, perp, psi), 1e9, interaction_type='cc')
        p.interaction.em_frac, p.interaction.had_frac = 0.7, 0.3
        p.survival_weight, p.interaction_weight = 1.0, 1.0
        parts.append(p)
    events.append(pyrex.Event(parts))
    return events


def make_generator(kind, tracer_cls, tkw, ice, antennas, rng, workdir, offcone=40):
    if kind == 'list':
        return pyrex.ListGenerator(crafted_events(tracer_cls, tkw, ice, antennas, rng, offcone)), 8
    if kind == 'cylindrical':
        return pyrex.CylindricalGenerator(dr=400, dz=600, energy=1e9, shadow=False), 3
    if kind == 'rectangular':
        return pyrex.RectangularGenerator(dx=500, dy=500, dz=600, energy=1e9, shadow=False), 3
    if kind == 'file':
        path = os.path.join(workdir, 'gen_%d.h5' % os.getpid())
        if os.path.exists(path):
            os.remove(path)
        w = File(path, 'w', write_rays=False, require_trigger=False)
        w.open()
        for ev in crafted_events(tracer_cls, tkw, ice, antennas, rng)[:4]:
            w.add(ev, triggered=True, events_thrown=2)
        w.close()
        return pyrex.FileGenerator([path], slice_range=3), 4
    raise KeyError(kind)


def derive_scenario(ctx, kernel, n_ant, trig, writer, thrown):
    parts = ctx.particles
    P = len(parts)
    wm = kernel.weight_min
    if isinstance(wm, tuple):
        cut = {'form': 'pair', 'm1': 5, 'm2': 5}
        w = [{'surv': -1 if x.survival_weight is None else (10 if x.survival_weight >= wm[0] else 2),
              'inter': -1 if x.interaction_weight is None else (10 if x.interaction_weight >= wm[1] else 2),
              'forced': -1} for x in parts]
    elif wm:
        cut = {'form': 'scalar', 'm1': 5, 'm2': 0}
        w = [{'surv': 10, 'inter': 10, 'forced': 10 if x.weight >= wm else 1} for x in parts]
    else:
        cut = {'form': 'none', 'm1': 0, 'm2': 0}
        w = [{'surv': 10, 'inter': 10, 'forced': -1} for x in parts]
    nsol = [[0] * n_ant for _ in range(P)]
    off, bad = [], []
    exists_mismatch = []
    for tr in ctx.tracers:
        nsol[tr.p - 1][tr.a - 1] = tr.n_real
        if tr.exists_real != (tr.n_real > 0):
            exists_mismatch.append((tr.p, tr.a))
        part = parts[tr.p - 1]
        theta_c = np.arccos(1 / kernel.ice.index(part.vertex[2]))
        for k, path in enumerate(tr.paths):
            psi = np.arccos(np.clip(np.vdot(part.direction, path.emitted_direction), -1, 1))
            if abs(psi - theta_c) > kernel.offcone_max:
                off.append([tr.p, tr.a, k + 1])
    for e in ctx.log:
        if e['ev'] == '_Model' and e['raised']:
            bad.append([e['p'], e['a'], e['s']])
    return {'P': P, 'A': n_ant, 'w': w, 'wmin': cut, 'nsol': nsol, 'off': off, 'bad': bad, 'trig': trig,
            'writer': bool(writer), 'thrown': int(thrown)}, exists_mismatch


def record_events(combo, seed, workdir):
    """run the real kernel; -> list of traces"""
    import random
    rng = random.Random(seed)
    np.random.seed(seed % (2 ** 31))
    os.makedirs(workdir, exist_ok=True)
    tcls, tkw, _ = tracers()[combo['tracer']]
    ice = ice_models()[combo['ice']]()
    ctx = Ctx()
    ants = []
    for a, pos in enumerate([(0.0, 0.0, -200.0), (30.0, 10.0, -120.0)]):
        ant = RecAntenna(position=pos, noisy=False)
        ant.bind(ctx, a + 1)
        ants.append(ant)
    real_gen, nev = make_generator(combo['gen'], tcls, tkw, ice, ants, rng, workdir, combo['offcone'])
    gen = RecGen(real_gen, ctx)
    writer = None
    if combo['writer']:
        path = os.path.join(workdir, 'out_%d.h5' % os.getpid())
        if os.path.exists(path):
            os.remove(path)
        real_w = File(path, 'w', write_particles=True, write_triggers=combo['trig'] != 'none', write_rays=True,
                      write_waveforms=True, require_trigger=False)
        real_w.open()
        writer = RecWriter(real_w, ctx)
    kernel = EventKernel(gen, ants, ice_model=ice, ray_tracer=make_rec_tracer(tcls, ctx, ants, tkw),
                         signal_model=make_rec_model(signal_models()[combo['model']], ctx), signal_times=SIGNAL_TIMES,
                         event_writer=writer, triggers=trigger_functions(combo['trig'], ctx),
                         offcone_max=combo['offcone'], weight_min=combo['wmin'],
                         attenuation_interpolation=combo['interp'])
    traces = []
    count0 = gen.count
    try:
        for i in range(nev):
            ctx.log, ctx.tracers, ctx.tracer, ctx.particles = [], [], None, []
            for ant in ants:
                ant.clear()
            before = gen.count if i else count0
            ret, exc = None, None
            try:
                ret = kernel.event()
            except Exception as ex:          # an exception escaping event() is an event no spec action matches
                exc = ex
            thrown = gen.count - before
            obs = collapse(ctx.log)
            for ai, ant in enumerate(ants):
                handed = sum(1 for e in ctx.log if e['ev'] == '_Receive' and e['a'] == ai + 1)
                if exc is None and len(ant.signals) != handed:
                    obs.append({'ev': 'Exception', 'what': 'antenna %d holds %d signals after %d receive calls' % (ai + 1, len(ant.signals), handed)})
            for e in obs:
                if e['ev'] == 'EvalTriggers':
                    e['nkeys'] = len(e.pop('keys'))
                if e['ev'] == 'Solution':
                    e.pop('interp', None)
            if exc is not None:
                obs.append({'ev': 'Exception', 'what': '%s: %s' % (type(exc).__name__, str(exc)[:200])})
            else:
                trig = combo['trig']
                if trig == 'none':
                    same, tg = ret is ctx.event, False
                else:
                    same = isinstance(ret, tuple) and ret[0] is ctx.event
                    tg = bool(ret[1]) if isinstance(ret, tuple) else False
                obs.append({'ev': 'Return', 'same_event': bool(same), 'tform': 'none' if trig == 'none' else 'some', 'tglobal': tg})
            if not ctx.particles:
                continue
            sc, mism = derive_scenario(ctx, kernel, len(ants), combo['trig'], combo['writer'], thrown)
            traces.append({'sc': sc, 'events': obs, 'combo': combo, 'event_no': i, 'exists_mismatch': mism})
            if exc is not None:
                break
    finally:
        if writer is not None and writer.real.is_open:
            writer.real.close()
    return traces
