"""Driver binding spec/AntennaResponse.tla to Antenna.apply_response / receive, DipoleAntenna gains and
AntennaSystem delegation (C08, discrete core)."""
import numpy as np
import pyrex
from pyrex.signals import Signal
from vlib.core import Divergence

T = np.arange(6) * 1e-9
V1 = np.array([0.0, 4.0, -2.0, 8.0, 0.0, 2.0])
V2 = np.array([1.0, 0.0, 3.0, -1.0, 2.0, 0.0])
VT = {'voltage': Signal.Type.voltage, 'field': Signal.Type.field, 'power': Signal.Type.power, 'undefined': None}


class Probe(pyrex.Antenna):
    """gain depends injectively on the arrival angles and the polarization in the antenna frame"""

    def directional_gain(self, theta, phi):
        return 1 + 0.3 * np.cos(theta) + 0.2 * np.sin(theta) * np.cos(phi) + 0.1 * np.sin(theta) * np.sin(phi)

    def polarization_gain(self, polarization):
        return 0.5 + 0.25 * np.vdot(self.z_axis, polarization) + 0.125 * np.vdot(self.x_axis, polarization)


class UnitDipole(pyrex.DipoleAntenna):
    """the real dipole gains, with a unit frequency response so that values stay exact"""

    def frequency_response(self, frequencies):
        return np.ones(len(frequencies))


class Sys(pyrex.AntennaSystem):
    pass


def build(cls, z, x, af, eff):
    pos = (10.0, -20.0, -100.0)
    if cls == 'base':
        a = pyrex.Antenna(position=pos, z_axis=z, x_axis=x, antenna_factor=af, efficiency=eff, noisy=False)
    elif cls in ('probe', 'system'):         # the system wraps a probe: delegation must reach angle-dependent gains
        a = Probe(position=pos, z_axis=z, x_axis=x, antenna_factor=af, efficiency=eff, noisy=False)
    else:
        # a neighbour with a band a fraction of a MHz away exists before the dipole under test: each dipole's band-pass is its own
        pyrex.DipoleAntenna('neighbour', pos, center_frequency=250.3e6, bandwidth=300.2e6, temperature=300, resistance=50,
                            orientation=z, effective_height=1.0, noisy=False)
        a = UnitDipole('d', pos, center_frequency=250e6, bandwidth=300e6, temperature=300, resistance=50,
                       orientation=z, effective_height=1.0 / af, noisy=False)
        a.efficiency = eff
        real = pyrex.DipoleAntenna('r', pos, center_frequency=250e6, bandwidth=300e6, temperature=300, resistance=50,
                                   orientation=z, effective_height=1.0, noisy=False)
        import scipy.signal
        fr = np.array([5e7, 1e8, 2.5e8, 4e8, 8e8])
        _, h = scipy.signal.freqs(*scipy.signal.butter(1, 2 * np.pi * np.array([100e6, 400e6]), btype='bandpass', analog=True), 2 * np.pi * fr)
        got = np.asarray(real.frequency_response(fr))
        if not np.allclose(got, h, rtol=1e-9, atol=1e-12):
            raise Divergence('DipoleAntenna(250 MHz, 300 MHz bandwidth).frequency_response at %s' % list(fr),
                             'first-order Butterworth band-pass 100-400 MHz: %s' % list(np.round(h, 6)), list(np.round(got, 6)))
    if cls == 'system':
        s = Sys(a)
        return s, a
    return a, a


class ResponseDriver:
    def __init__(self):
        self.cases = 0

    def stats(self):
        st = {'response_cases': self.cases}
        self.cases = 0
        return st

    def cleanup(self):
        pass

    def reset(self, st):
        pass

    def step(self, label, st):
        last, c = st['last'], st['cs']
        z, x = [float(v) for v in last['z']], [float(v) for v in last['x']]
        d = np.array([float(v) for v in last['d']])
        p = np.array([float(v) for v in last['p']])
        k = (sum(c['d']) + 3 * sum(c['p'])) % 3
        af, eff = (2.0, 0.5, 4.0)[k], (1.0, 0.5, 0.25)[k]
        if last['op'] == 'Reorient':
            # the object that has just responded is re-oriented (through the system where there is one)
            top, ant = self.obj
            if c['cls'] == 'dipole':
                ant.set_orientation(z_axis=z, x_axis=x)
            else:
                top.set_orientation(z_axis=z, x_axis=x)
        else:
            top, ant = build(c['cls'], z, x, af, eff)
            self.obj = (top, ant)
        self.cases += 1
        fr = np.array([float(v) for v in last['frame']])
        r = np.linalg.norm(fr)
        if c['cls'] in ('probe', 'system'):
            polz = last['polz'] / np.linalg.norm(p)
            polx = last['polx'] / np.linalg.norm(p)
            dgain, pgain = 1 + (0.3 * fr[2] + 0.2 * fr[0] + 0.1 * fr[1]) / r, 0.5 + 0.25 * polz + 0.125 * polx
        elif c['cls'] == 'dipole':
            dgain, pgain = np.sqrt(max(0.0, 1 - (fr[2] / r) ** 2)), last['polz'] / np.linalg.norm(p)
        else:
            dgain, pgain = 1.0, 1.0
        gain = dgain * pgain
        where = '%s rot=%s d0=%s p0=%s type=%s' % (c['cls'], dict(c['rot']), list(c['d']), list(c['p']), c['vt'])
        s1 = Signal(T, V1, value_type=VT[c['vt']])
        s2 = Signal(T, V2, value_type=VT[c['vt']])
        from pyrex.signals import EmptySignal
        empty = EmptySignal(T, value_type=VT[c['vt']])
        if last['factor'] == 'raises':
            calls = {'apply_response(signal)': lambda: top.apply_response(s1, direction=d, polarization=p),
                     'receive(signal)': lambda: top.receive(s1, direction=d, polarization=p),
                     'apply_response(empty signal)': lambda: top.apply_response(empty, direction=d, polarization=p),
                     'receive(empty signal)': lambda: top.receive(empty, direction=d, polarization=p),
                     'receive([signal, empty signal])': lambda: top.receive([Signal(T, V1, value_type=Signal.Type.voltage), empty],
                                                                            direction=d, polarization=[p, p])}
            for name, call in calls.items():
                n_before = len(ant.signals)
                try:
                    call()
                except ValueError:
                    if len(ant.signals) != n_before:
                        raise Divergence(where + ': %s rejected but a signal was stored' % name, n_before, len(ant.signals))
                    continue
                raise Divergence(where + ': %s with a value type that is neither field nor voltage' % name, 'ValueError', 'accepted')
            return
        factor = gain * eff / (af if last['factor'] == 'gain_over_antenna_factor' else 1.0)
        out1 = top.apply_response(s1, direction=d, polarization=p)
        self.same(where + ': response', out1.values, V1 * factor)
        if out1.value_type != Signal.Type.voltage:
            raise Divergence(where + ': output value type', 'voltage', out1.value_type)
        if not np.array_equal(out1.times, T):
            raise Divergence(where + ': output times', list(T), list(out1.times))
        if not np.array_equal(s1.values, V1):
            raise Divergence(where + ': input signal modified', list(V1), list(s1.values))
        # direction or polarization not given: the corresponding gain is not applied (and the other one still is)
        base = eff / (af if last['factor'] == 'gain_over_antenna_factor' else 1.0)
        self.same(where + ': response without direction', top.apply_response(s1, direction=None, polarization=p).values, V1 * pgain * base)
        self.same(where + ': response without polarization', top.apply_response(s1, direction=d, polarization=None).values, V1 * dgain * base)
        self.same(where + ': response without direction and polarization', top.apply_response(s1).values, V1 * base)
        # linearity
        s12 = Signal(T, V1 + 2 * V2, value_type=VT[c['vt']])
        out12 = top.apply_response(s12, direction=d, polarization=p)
        out2 = top.apply_response(s2, direction=d, polarization=p)
        self.same(where + ': linearity', out12.values, out1.values + 2 * out2.values)
        # receive stores the same response; two polarized components are summed
        top.clear()
        top.receive(s1, direction=d, polarization=p)
        self.same(where + ': receive(signal)', ant.signals[-1].values, V1 * factor)
        if c['cls'] == 'base':
            top.receive([s1, s2], direction=d, polarization=[p, p])
            self.same(where + ': receive([s1, s2])', ant.signals[-1].values, (V1 + V2) * factor)
        # empty signals of an accepted type are received as all-zero voltages
        top.clear()
        top.receive(empty, direction=d, polarization=p)
        self.same(where + ': receive(empty signal)', ant.signals[-1].values, np.zeros(len(T)))
        if ant.signals[-1].value_type != Signal.Type.voltage:
            raise Divergence(where + ': stored empty signal type', 'voltage', ant.signals[-1].value_type)
        # dipole gains directly
        if c['cls'] == 'dipole':
            # spherical angles of the source direction (-d) in the antenna frame, from the public axes
            zax = np.asarray(ant.z_axis, dtype=float) / np.linalg.norm(ant.z_axis)
            xax = np.asarray(ant.x_axis, dtype=float) / np.linalg.norm(ant.x_axis)
            yax = np.cross(zax, xax)
            u = -np.asarray(d, dtype=float) / np.linalg.norm(d)
            theta = float(np.arccos(np.clip(np.dot(u, zax), -1, 1)))
            phi = float(np.arctan2(np.dot(u, yax), np.dot(u, xax)))
            self.same(where + ': directional gain', [ant.directional_gain(theta, phi)], [np.sqrt(max(0.0, 1 - (fr[2] / r) ** 2))])
            self.same(where + ': polarization gain', [ant.polarization_gain(p / np.linalg.norm(p))], [last['polz'] / np.linalg.norm(p)])

    @staticmethod
    def same(where, got, want):
        g, w = np.asarray(got, dtype=float), np.asarray(want, dtype=float)
        if g.shape != w.shape or not np.allclose(g, w, rtol=0, atol=1e-9 * max(1.0, float(np.max(np.abs(w))))):
            raise Divergence(where, [float(v) for v in w], [float(v) for v in g])
