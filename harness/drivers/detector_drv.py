"""Driver binding spec/Detector.tla to pyrex.detector (Detector, CombinedDetector) (C19).

Strings are Detector subclasses whose build_antennas / triggered overrides record which
keywords they were called with; class "A" builds plain antennas, class "B" builds
AntennaSystem-wrapped antennas (noiseless).  After every step every detector-like object is
iterated, measured and indexed and compared with the spec's flattening; hit states of all
antennas and the recorded keywords of all strings are compared as well.
"""
import numpy as np
import pyrex
from vlib.core import Divergence

_U = object()
SIG_T = np.arange(4) * 1.0
KWV = {'gain': 2, 'label': 'L', 'offset': 3, 'thr': 0.5, 'cnt': 2}


class AntA(pyrex.Antenna):
    def __init__(self, position, gain=1, label='x', **kw):
        super().__init__(position=position, noisy=False)
        self.clears = []

    def clear(self, reset_noise=False):
        self.clears.append(bool(reset_noise))
        super().clear(reset_noise=reset_noise)


class AntB(pyrex.AntennaSystem):
    def __init__(self, position, gain=1, offset=0, **kw):
        super().__init__(pyrex.Antenna)
        self.setup_antenna(position=position, noisy=False)
        self.clears = []

    def clear(self, reset_noise=False):
        self.clears.append(bool(reset_noise))
        super().clear(reset_noise=reset_noise)

    @property
    def position(self):
        return self.antenna.position


class _Str(pyrex.Detector):
    def set_positions(self, n, tag, above=False):
        self.antenna_positions = [(float(tag * 10 + j), 0.0, 5.0 if (above and j == n - 1) else -10.0 * (j + 1))
                                  for j in range(n)]
        self.bgot = 'none'
        self.tgot = 'none'


class StrA(_Str):
    def build_antennas(self, gain=_U, label=_U):
        self.bgot = {k for k, v in (('gain', gain), ('label', label)) if v is not _U}
        super().build_antennas(AntA)

    def triggered(self, thr=_U, require_mc_truth=False):
        self.tgot = {k for k, v in (('thr', thr),) if v is not _U}
        self.tmc = require_mc_truth
        return super().triggered(require_mc_truth=require_mc_truth)


class StrB(_Str):
    def build_antennas(self, gain=_U, offset=_U):
        self.bgot = {k for k, v in (('gain', gain), ('offset', offset)) if v is not _U}
        super().build_antennas(AntB)

    def triggered(self, cnt=_U, require_mc_truth=False):
        self.tgot = {k for k, v in (('cnt', cnt),) if v is not _U}
        self.tmc = require_mc_truth
        return super().triggered(require_mc_truth=require_mc_truth)


class Sta(pyrex.Detector):
    def set_positions(self, c1, c2, tag):
        self.subsets = [(StrA if c1 == 'A' else StrB)(1, tag), (StrA if c2 == 'A' else StrB)(1, tag + 1)]


class DetectorDriver:
    def __init__(self):
        self.compared = 0

    def stats(self):
        st = {'detector_traversals_compared': self.compared}
        self.compared = 0
        return st

    def cleanup(self):
        self.real = {}

    def reset(self, st):
        self.real = {}
        self.tag = 0

    def _map_string(self, sid, so, string):
        ants = list(string)
        if len(ants) != len(so['items']):
            raise Divergence('antennas built by string %d' % sid, len(so['items']), len(ants))
        for aid, ant in zip(so['items'], ants):
            self.real[aid] = ant

    def step(self, label, st):
        last = st['last']
        op = last['op']
        obj = st['obj']
        R = self.real
        raised = None
        try:
            if op == 'NewAnt':
                self.tag += 1
                cls = AntA if self.tag % 2 else AntB
                R[last['slot']] = cls(position=(1000.0 + self.tag, 0.0, 5.0 if last['above'] else -50.0))
            elif op == 'NewList':
                R[last['slot']] = [R[i] for i in last['items']]
            elif op == 'NewNested':
                top = last['slot']
                ids = [top - 4, top - 3]
                for i_ in ids:
                    self.tag += 1
                    R[i_] = (AntA if self.tag % 2 else AntB)(position=(1000.0 + self.tag, 0.0, -50.0))
                R[top - 2], R[top - 1] = [R[ids[0]]], [R[ids[1]]]
                R[top] = [R[top - 2], R[top - 1]]
            elif op == 'NewStr':
                self.tag += 1
                s = (StrA if last['cls'] == 'A' else StrB)(last['n'], self.tag, above=bool(last['above']))
                s.build_antennas()
                s.bgot = 'none'
                sid = last['slot']
                R[sid] = s
                self._map_string(sid, obj[sid - 1], s)
            elif op == 'NewSta':
                self.tag += 2
                sta = Sta(last['c1'], last['c2'], self.tag)
                sta.build_antennas()
                sid = last['slot']
                R[sid] = sta
                for sub_id, sub in zip(obj[sid - 1]['items'], sta.subsets):
                    sub.bgot = 'none'
                    R[sub_id] = sub
                    self._map_string(sub_id, obj[sub_id - 1], sub)
            elif op == 'Plus':
                res = R[last['a']] + R[last['b']]
                if not isinstance(res, pyrex.detector.CombinedDetector):
                    raise Divergence('a + b', 'CombinedDetector', type(res).__name__)
                R[last['slot']] = res
            elif op == 'IPlus':
                c = R[last['a']]
                c2 = c
                c2 += R[last['b']]
                if c2 is not c:
                    raise Divergence('c += x', 'in place', 'a new object')
            elif op == 'Sum3':
                a, b, c = R[last['a']], R[last['b']], R[last['c']]
                res = sum([a, b, c])
                want = [id(x) for x in self.flat(st, last['slot'])]
                variants = {'sum([a,b,c])': res, '(a+b)+c': (a + b) + c}
                if isinstance(b, pyrex.Detector) or isinstance(c, pyrex.Detector):
                    variants['a+(b+c)'] = a + (b + c)
                for name, v in variants.items():
                    if [id(x) for x in v] != want:
                        raise Divergence('flattened content of %s' % name, 'Flat(a) + Flat(b) + Flat(c)', 'different antennas / order')
                R[last['slot'] - 1] = a + b
                R[last['slot']] = res
            elif op == 'Hit':
                R[last['a']].receive(pyrex.Signal(SIG_T, [0.0, 1.0, -1.0, 0.5], value_type='voltage'))
            elif op == 'Clear':
                targets = self.flat(st, last['a'])
                for x in targets:
                    x.clears = []
                if last['reset']:
                    R[last['a']].clear(reset_noise=True)
                else:
                    R[last['a']].clear()
                for x in targets:
                    if x.clears != [bool(last['reset'])]:
                        raise Divergence('clear(reset_noise=%s) of detector %d as received by the antenna at %s' % (last['reset'], last['a'], (x.position,)),
                                         [bool(last['reset'])], x.clears)
            elif op == 'Build':
                d = R[last['a']]
                d.build_antennas(**{k: KWV[k] for k in last['kw']})
                for sid in range(1, len(obj) + 1):
                    if obj[sid - 1]['k'] == 'str' and sid in R:
                        self._map_string(sid, obj[sid - 1], R[sid])
            elif op == 'Triggered':
                d = R[last['a']]
                got = d.triggered(require_mc_truth=bool(last['mc']), **{k: KWV[k] for k in last['kw']})
                if bool(got) != bool(last['val']):
                    raise Divergence('triggered(require_mc_truth=%s, %s)' % (last['mc'], sorted(last['kw'])), last['val'], got)
            else:
                raise Divergence('op', 'known op', op)
        except ValueError as ex:
            raised = ex
        if last.get('res') == 'raises':
            if raised is None:
                raise Divergence(op, 'ValueError (antenna above the ice)', 'accepted')
        elif raised is not None:
            raise Divergence(op, 'no exception', repr(raised))
        self.compare(st)

    def flat(self, st, i):
        o = st['obj'][i - 1]
        if o['k'] == 'ant':
            return [self.real[i]]
        out = []
        for j in o['items']:
            out.extend(self.flat(st, j))
        return out

    def compare(self, st):
        obj = st['obj']
        for i, o in enumerate(obj, start=1):
            if i not in self.real:
                if o['k'] == 'ant':
                    continue
                raise Divergence('object %d' % i, 'exists', 'missing in driver')
            r = self.real[i]
            if o['k'] == 'ant':
                if bool(r.is_hit) != bool(o['hit']):
                    raise Divergence('antenna %d is_hit' % i, o['hit'], r.is_hit)
                continue
            if o['k'] == 'list':
                continue
            want = self.flat(st, i)
            got = list(r)
            self.compared += 1
            if [id(x) for x in got] != [id(x) for x in want]:
                raise Divergence('iteration of detector %d (%s)' % (i, o['k']), ['ant@%s' % (x.position,) for x in want],
                                 ['ant@%s' % (getattr(x, 'position', x),) for x in got])
            if len(r) != len(want):
                raise Divergence('len(detector %d)' % i, len(want), len(r))
            for k in list(range(len(want))) + [-1]:
                if want and r[k] is not want[k]:
                    raise Divergence('detector %d [%d]' % (i, k), 'antenna %d of the flattened content' % k, 'another object')
            if o['k'] == 'str':
                for field in ('bgot', 'tgot'):
                    w = o[field] if o[field] == 'none' else set(o[field])
                    g = getattr(r, field)
                    if w != g:
                        raise Divergence('keywords received by string %d (%s)' % (i, 'build_antennas' if field == 'bgot' else 'triggered'),
                                         w if w == 'none' else sorted(w), g if g == 'none' else sorted(g))
