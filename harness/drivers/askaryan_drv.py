"""Driver binding spec/AskaryanRel.tla to the Askaryan models of pyrex/askaryan.py (C07, relational core).

Exactness: the grid step is step * 2**-31 s (0.47 ns / 0.93 ns), grid offsets and shower times are whole samples,
so `t0 - times[0]` and its quotient by dt are exact in floating point and every relation of the spec is
expected to hold to rounding (1e-9 of the peak).  The base field is computed at the initial state; at every
later state the real model is evaluated at the transformed inputs and compared with the base field through
the spec's bookkeeping `rel` (scale num/den, shift in samples, zero flag).  Every evaluated field must have
the length of the grid and be finite.
"""
import logging
import numpy as np
import pyrex
from pyrex.askaryan import ZHSAskaryanSignal, AVZAskaryanSignal, ARZAskaryanSignal
from vlib.core import Divergence

DT = 2.0 ** -31
N_ICES = {1: 1.78, 2: 1.5}          # index of the (uniform) ice handed to the model: the cone follows the ice given
MODELS = {'ZHS': ZHSAskaryanSignal, 'AVZ': AVZAskaryanSignal, 'ARZ': ARZAskaryanSignal}
R0 = 100.0
ENERGY = {0: 1e9, 1: 100.0, 2: 1.0, 3: 0.1, 4: 0.01}     # GeV: far above every threshold ... below every critical energy
DELTA = 0.02
TOL = 1e-9


def theta(a, n_ice=1.78):
    if a == 100:
        return 0.0
    if a == 101:
        return np.pi / 2
    if a == 102:
        return np.pi
    return float(np.arccos(1 / n_ice) + DELTA * a)


class AskaryanDriver:
    def __init__(self):
        self.ices = {k: pyrex.ice_model.UniformIce(v) for k, v in N_ICES.items()}
        self.evals = 0
        self.known = []
        logging.getLogger('pyrex').setLevel(logging.ERROR)

    def stats(self):
        st = {'askaryan_fields_evaluated': self.evals}
        self.evals = 0
        return st

    def cleanup(self):
        self.base = None

    def field(self, st, ang=None, how=None):
        n, step = st['n'], st['step']
        dt = DT * step
        g0 = 7                                      # base grid offset in samples
        times = (g0 + st['mg'] + np.arange(n)) * dt
        t0 = (g0 + n // 2 + st['mt']) * dt
        em, had = st['frac']
        tot = float(em + had)
        p = pyrex.Particle('nu_e', (0, 0, -1000.0), (0, 0, 1), 1e9, interaction_type='cc')
        p.energy = ENERGY[st['en']] * st['kE']
        p.interaction.em_frac, p.interaction.had_frac = em / tot / st['fdiv'], had / tot
        if st['zero']:
            if (how or self.zero_how) == 'energy':
                p.energy = 0.0
            else:
                p.interaction.em_frac = p.interaction.had_frac = 0.0
        a = theta(st['off'], N_ICES[st['ice']]) if ang is None else ang
        sig = MODELS[st['model']](times, p, st['sign'] * a, R0 * st['kR'], ice_model=self.ices[st['ice']], t0=t0)
        v = np.asarray(sig.values, dtype=float)
        self.evals += 1
        where = '%s(N=%d, dt=2^-31*%d, angle=%+.4f, R=%g, E=%g, fractions=%s, grid offset %d, t0 offset %d)' % (
            st['model'], n, step, st['sign'] * a, R0 * st['kR'], p.energy, (p.interaction.em_frac, p.interaction.had_frac),
            st['mg'], st['mt'])
        if v.shape != (n,):
            raise Divergence('shape of values of ' + where, (n,), v.shape)
        if len(sig.times) != n or not np.array_equal(np.asarray(sig.times), times):
            raise Divergence('times of ' + where, 'the grid given', 'changed')
        if not np.all(np.isfinite(v)):
            raise Divergence('values of ' + where, 'finite everywhere', 'nan/inf at %s' % list(np.nonzero(~np.isfinite(v))[0][:5]))
        if sig.value_type != pyrex.Signal.Type.field:
            raise Divergence('value_type of ' + where, 'field', sig.value_type)
        return v, where

    def reset(self, st):
        self.zero_how = 'energy'
        self.known = []
        self.base, _ = self.field(st)
        self.peak = float(np.max(np.abs(self.base)))

    def step(self, label, st):
        last = st['last']
        op = last['op']
        if op == 'Zero':
            self.zero_how = last['how']
        if op == 'AngleScan':
            return self.scan(st)
        v, where = self.field(st)
        rel = st['rel']
        if rel['zero']:
            if np.any(v != 0):
                raise Divergence(where + ' with zero shower energy', 'all-zero field', 'max |v| = %g' % np.max(np.abs(v)))
            return
        n = st['n']
        sh = rel['shift']
        scale = rel['num'] / rel['den']
        lo, hi = max(0, sh), min(n, n + sh)
        want = scale * self.base[lo - sh:hi - sh]
        got = v[lo:hi]
        err = float(np.max(np.abs(got - want))) if hi > lo else 0.0
        if not (err <= TOL * scale * max(self.peak, 1e-300)):
            k = int(np.argmax(np.abs(got - want)))
            raise Divergence('%s after %s: field vs base field (scale %d/%d, moved by %d samples), sample %d' % (
                where, op, rel['num'], rel['den'], sh, lo + k), float(want[k]), float(got[k]))
        if self.peak > 0 and hi > lo and float(np.max(np.abs(got))) == 0 and float(np.max(np.abs(want))) > 0:
            raise Divergence(where + ' after ' + op, 'the moved pulse', 'all zero')

    def scan(self, st):
        """peak amplitudes on an angle lattice around the cone"""
        thc = theta(0, N_ICES[st['ice']])
        for delta in (DELTA, DELTA / 4):
            amps = np.array([np.max(np.abs(self.field(st, ang=thc + delta * k)[0])) for k in range(-6, 7)])
            if not np.any(amps > 0):
                continue                                  # no pulse at all (e.g. sub-TeV hadronic shower in AVZ, below-critical ARZ)
            # on the fine lattice the comparison allows 0.5 %: the AVZ parameterisation carries a factor sin(theta) / sin(theta_c),
            # which puts its true maximum a few milliradians above the cone (1.001 x the on-cone amplitude for n = 1.5)
            slack = 1.0 if delta == DELTA else 1.005
            if not amps[6] * slack >= np.max(amps):
                raise Divergence('%s frac %s: angle of the largest peak amplitude on the lattice theta_c + %g k' % (st['model'], st['frac'], delta),
                                 'k = 0 (on the cone)', 'k = %d; %s' % (int(np.argmax(amps)) - 6, list(np.round(amps / amps[6], 4))))
            out = list(amps[6::-1]), list(amps[6:])          # walking away from the cone on either side
            mono = all(b < a_ * slack or (a_ == 0 and b == 0) for side in out for a_, b in zip(side, side[1:]))
            if not mono:
                if st['model'] == 'ARZ':
                    self.known.append(('D29', 'ARZ peak amplitude is not monotone in the angular distance on a %g rad lattice '
                                              '(decimation without anti-aliasing of a pulse narrower than a sample)' % delta))
                    continue
                raise Divergence('%s frac %s: peak amplitude along the lattice theta_c + %g k, k = -6..6' % (st['model'], st['frac'], delta),
                                 'rising to the cone and falling after it', list(np.round(amps / amps[6], 4)))
