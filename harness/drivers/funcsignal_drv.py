"""Driver binding spec/FuncSignal.tla to pyrex.signals.FunctionSignal and subclasses (C06).

Each spec object is realised three times and all follow the same operations:
  * `real`   -- FunctionSignal over an integer-valued function: values are compared with the
                spec (`last.res` on Read, Eval of the final state at the end);
  * `noise`  -- a FullThermalNoise (sum of cosines), grid scaled to nanoseconds;
  * `pulse`  -- an AVZAskaryanSignal-like FunctionSignal subclass instance (frequency-domain
                parameterisation evaluated per grid), grid scaled to nanoseconds.
For the shadows the spec supplies the history (where reads interleave with mutations);
their values are compared with a fresh object with the same definition (`copy()`), which is
the property's own oracle.  Values are only read where the spec reads, so the real objects'
caches are in the state the model describes.
"""
import numpy as np
import pyrex
from pyrex.signals import FunctionSignal, FullThermalNoise
from vlib.core import Divergence
from drivers.signals_drv import _fn, ticks

TOL = 1e-9
NS = 1e-9


def delay_response(tau, gain):
    def response(f):
        return gain * np.exp(-2j * np.pi * np.asarray(f) * tau)
    response.__name__ = 'delay_%g_gain_%g' % (tau, gain)
    return response


def scalar_delay_response(tau, gain):
    def response(f):
        if np.ndim(f) != 0:
            raise TypeError('scalar only')
        return gain * np.exp(-2j * np.pi * f * tau)
    response.__name__ = 'scalar_delay'
    return response


def spec_F(fn, x):
    if fn == 'lin':
        return 4 * x
    if fn == 'step':
        return 16 if x >= 0 else 0
    if fn == 'tri':
        return 0 if abs(x) > 4 else 16 * (4 - abs(x))
    if fn == 'sstep':
        return 8 if x >= 2 else 0
    raise KeyError(fn)


def ceil_div(a, b):
    return (a + b - 1) // b


def spec_eval(o):
    g = o['g']
    dt = g[1] - g[0]
    out = []
    for n in range(len(g)):
        s = 0
        for c in o['comps']:
            if c['nf'] == 0:
                s += c['fac'] * spec_F(c['fn'], g[n] - c['t0'])
            else:
                ds = c['delay'] // dt
                nb = ceil_div(c['lead'], dt)
                na = ceil_div(c['trail'], dt)
                m = n + nb - ds
                if 0 <= m <= nb + len(g) + na - 1:
                    s += c['gain'] * c['fac'] * spec_F(c['fn'], g[n] - c['delay'] - c['t0'])
        out.append(float(s))
    return out


class FnObj:
    """the defining function as a callable *object* with mutable state (`gain`): a new signal made from an operand must own
    its own copy of it (copies, re-gridded signals, sums and products share no mutable state with their operands)"""
    registry = []

    def __init__(self, kind, scale=1.0):
        self.kind, self.scale, self.gain = kind, scale, 1.0
        self.f = _fn(kind, scale)
        FnObj.registry.append(self)

    def __call__(self, t):
        return self.gain * self.f(t)

    def __deepcopy__(self, memo):
        clone = FnObj(self.kind, self.scale)
        clone.gain = self.gain
        return clone


DEC = 0.2          # time unit of the decimal replica: one tick = 0.1 (not a binary fraction)


class Slot:
    def __init__(self, real, noise, pulse, dec=None):
        self.real, self.noise, self.pulse, self.dec = real, noise, pulse, dec

    def each(self):
        return ((self.real, 1.0), (self.noise, NS), (self.pulse, NS), (self.dec, DEC))


class FuncSignalDriver:
    def __init__(self, shadows=True):
        self.shadows = shadows
        self.objs = []
        self.reads = 0
        self.shadow_reads = 0

    def stats(self):
        st = {'value_reads_compared': self.reads, 'subclass_fresh_comparisons': self.shadow_reads}
        self.reads = self.shadow_reads = 0
        return st

    def cleanup(self):
        self.objs = []

    def reset(self, st):
        self.objs = []
        self.particle = None
        FnObj.registry = []

    def _new(self, g, fn):
        t = ticks(g)
        real = FunctionSignal(t, FnObj(fn))
        # the same definition on a grid whose step is a decimal fraction: buffer sample counts (lead / dt) then live on the
        # edge of floating-point division; only continuous functions, so that a rounding of the argument cannot flip a value
        dec = FunctionSignal(ticks(g, DEC), _fn(fn, DEC)) if fn in ('lin', 'tri') else None
        if not self.shadows:
            return Slot(real, None, None, dec)
        np.random.seed(len(g) * 7 + g[0] % 5 + 1)
        noise = FullThermalNoise(t * NS, f_band=(1e8, 6e8), rms_voltage=1.0)
        if self.particle is None:
            self.particle = pyrex.Particle('nu_e', (0, 0, -1000), (0, 0, 1), 1e8, interaction_type='cc')
            self.particle.interaction.em_frac = 0.6
            self.particle.interaction.had_frac = 0.4
        pulse = pyrex.AskaryanSignal(t * NS, self.particle, viewing_angle=0.95, viewing_distance=100.0,
                                     t0=float(t[len(t) // 2] * NS))
        return Slot(real, noise, pulse, dec)

    def step(self, label, st):
        last = st['last']
        op = last['op']
        i = last.get('a', 0) - 1
        if op == 'New':
            self.objs.append(self._new(last['g'], last['fn']))
        elif op == 'Read':
            self.read(i, last['res'], 'objs[%d].values' % (i + 1), st['objs'][i])
        elif op in ('Shift', 'IMul', 'IDiv', 'Filter', 'SetBuffers', 'SetBuffersFail', 'Resample', 'AssignTimes', 'AugTimes'):
            for o, sc in self.objs[i].each():
                if o is None:
                    continue
                if op == 'Shift':
                    o.shift(last['d'] / 2.0 * sc)
                elif op == 'IMul':
                    o2 = o
                    o2 *= float(last['k'])
                    assert o2 is o
                elif op == 'IDiv':
                    o2 = o
                    o2 /= float(last['k'])
                    assert o2 is o
                elif op == 'Filter':
                    tau = last['d'] / 2.0 * sc
                    mk = scalar_delay_response if (last['gain'] == -1) else delay_response
                    o.filter_frequencies(mk(tau, float(last['gain'])), force_real=bool(last['force_real']))
                elif op == 'SetBuffers':
                    ld = None if last['lead'] == -1 else last['lead'] / 2.0 * sc
                    tr = None if last['trail'] == -1 else last['trail'] / 2.0 * sc
                    o.set_buffers(leading=ld, trailing=tr, force=bool(last['force']))
                elif op == 'SetBuffersFail':
                    ld = None if last['lead'] == -1 else last['lead'] / 2.0 * sc
                    try:
                        o.set_buffers(leading=ld, trailing=-1.0 * sc, force=bool(last['force']))
                    except ValueError:
                        pass
                    else:
                        raise Divergence('set_buffers(trailing < 0)', 'ValueError', 'accepted')
                elif op == 'Resample':
                    o.resample(last['n'])
                elif op == 'AssignTimes':
                    o.times = ticks(last['g']) * sc
                elif op == 'AugTimes':
                    o.times += last['d'] / 2.0 * sc
        elif op in ('Copy', 'Mul', 'WithTimes', 'Add'):
            new = []
            before = list(FnObj.registry)          # every function object that exists before the operation
            for k, (o, sc) in enumerate(self.objs[i].each()):
                if o is None:
                    new.append(None)
                    continue
                if op == 'Copy':
                    r = o.copy()
                elif op == 'Mul':
                    r = o * float(last['k'])
                elif op == 'WithTimes':
                    r = o.with_times(ticks(last['g']) * sc)
                    # a window cut out of the parent's own grid (also one sharing an edge with it) shows the parent's values:
                    # the buffers it is given make its buffer-extended grid the parent's grid.  Stated for parents without
                    # buffers of their own (then the two extended grids are the same); compared on copies, so that no cache of
                    # the objects under test is touched
                    pg, cg = list(st['objs'][i]['g']), list(last['g'])
                    if all(c['lead'] == 0 and c['trail'] == 0 for c in st['objs'][i]['comps']) and len(cg) <= len(pg):
                        for k0 in range(len(pg) - len(cg) + 1):
                            if pg[k0:k0 + len(cg)] == cg:
                                pv = np.asarray(o.copy().values, dtype=float)[k0:k0 + len(cg)]
                                cv = np.asarray(r.copy().values, dtype=float)
                                scale_ = max(float(np.max(np.abs(pv), initial=0)), 1e-300)
                                if not np.allclose(cv, pv, rtol=0, atol=1e-9 * scale_ + 1e-12):
                                    raise Divergence('with_times onto samples %d..%d of the own grid (replica %d): values vs the same samples of the original' % (
                                        k0, k0 + len(cg) - 1, k), list(map(float, pv)), list(map(float, cv)))
                                break
                elif op == 'Add':
                    other = list(self.objs[last['b'] - 1].each())[k][0]
                    if other is None:
                        new.append(None)
                        continue
                    o_, other_ = o, other
                    # value types of the shadows differ (voltage / field): add with undefined types
                    r = _add_untyped(o_, other_)
                if r is o:
                    raise Divergence(op, 'a new object', 'the operand itself')
                new.append(r)
            self.objs.append(Slot(*new))
            # the new signal owns its functions: changing the state of every function object that existed before leaves it alone
            made = new[0]
            ref = np.asarray(made.copy().values, dtype=float)
            for f_ in before:
                f_.gain = 3.0
            try:
                now = np.asarray(made.copy().values, dtype=float)
            finally:
                for f_ in before:
                    f_.gain = 1.0
            if not np.allclose(now, ref, rtol=0, atol=TOL * (1 + float(np.max(np.abs(ref), initial=0)))):
                raise Divergence('result of %s after the function objects of its operands were changed' % op, list(map(float, ref)), list(map(float, now)))
        else:
            raise Divergence('op', 'known op', op)
        # definition-level observables that do not touch the cache
        for k, (so, slot) in enumerate(zip(st['objs'], self.objs)):
            et = [x / 2.0 for x in so['g']]
            if len(slot.real.times) != len(et) or not np.allclose(slot.real.times, et, rtol=0, atol=TOL):
                raise Divergence('objs[%d].times' % (k + 1), et, list(map(float, slot.real.times)))

    def read(self, i, expected, where, so=None):
        slot = self.objs[i]
        if so is not None and slot.dec is not None and all(c['nf'] == 0 for c in so['comps']):
            # without filters the values are the function on the grid, whatever the buffers are
            vd = np.asarray(slot.dec.values, dtype=float)
            ed = np.array([float(x) for x in expected])
            if len(vd) != len(ed) or not np.allclose(vd, ed, rtol=0, atol=1e-6 * (1 + float(np.max(np.abs(ed), initial=0)))):
                raise Divergence(where + ' (replica on a grid of step 0.1, no filters)', list(map(float, ed)), list(map(float, vd)))
        v = np.asarray(slot.real.values, dtype=float)
        exp = [float(x) for x in expected]
        self.reads += 1
        if len(v) != len(exp) or not np.allclose(v, exp, rtol=0, atol=TOL * (1 + max(map(abs, exp), default=0)) * 16):
            raise Divergence(where, exp, list(map(float, v)))
        fresh = np.asarray(slot.real.copy().values, dtype=float)
        if not np.allclose(v, fresh, rtol=0, atol=TOL * (1 + max(map(abs, exp), default=0)) * 16):
            raise Divergence(where + ' vs fresh copy', list(map(float, fresh)), list(map(float, v)))
        for name, o in (('thermal-noise', slot.noise), ('askaryan', slot.pulse)):
            if o is None:
                continue
            got = np.asarray(o.values, dtype=float)
            ref = np.asarray(o.copy().values, dtype=float)
            self.shadow_reads += 1
            scale = max(np.max(np.abs(ref)), 1e-300)
            if got.shape != ref.shape or not np.allclose(got, ref, rtol=0, atol=1e-9 * scale):
                raise Divergence('%s (%s shadow) vs fresh object' % (where, name), list(map(float, ref)), list(map(float, got)))

    def finish(self, st):
        for i, so in enumerate(st['objs']):
            self.read(i, spec_eval(so), 'final objs[%d].values' % (i + 1), so)


def _add_untyped(a, b):
    ta, tb = a.value_type, b.value_type
    try:
        a.value_type = None
        b.value_type = None
        return a + b
    finally:
        a.value_type = ta
        b.value_type = tb
