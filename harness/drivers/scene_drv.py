"""Driver binding spec/SceneRel.tla to the real simulation chain (EventKernel with shipped tracers, signal model, antennas).

Base: the two-particle event and the three antennas at their lattice positions; also each particle alone (the blocks).
At every state the transformed scene is built from scratch (fresh particles, antennas, kernel), kernel.event() is run
and every antenna's list of received signals is compared with the prediction: antenna j holds what antenna aperm[j]
held in the base scene, the particle blocks in the order pperm; times identical, values to 1e-9 of the peak.
"""
import numpy as np
import pyrex
from pyrex.kernel import EventKernel
from pyrex.ice_model import AntarcticIce, GreenlandIce, UniformIce
from pyrex.ray_tracing import RayTracer, UniformRayTracer
from pyrex.custom.layered_ice import LayeredIce, LayeredRayTracer
from vlib.core import Divergence

TIMES = np.arange(-96, 160) * 2.0 ** -30
ANTS = [(0, 0, -100), (120, -50, -180), (-300, 400, -30)]
PARTS = [dict(pid='nu_e', vertex=(100, 50, -400), direction=(0.6, 0.0, -0.8), energy=1e9, kind='cc', em=0.7, had=0.3),
         dict(pid='nu_mu', vertex=(-200, 300, -800), direction=(0.0, -0.6, 0.8), energy=3e8, kind='nc', em=0.0, had=0.4)]


class Uniform2(UniformRayTracer):
    max_reflections = 2


def scene_model(k):
    if k == 1:
        return AntarcticIce(), RayTracer
    if k == 2:
        return UniformIce(1.5, valid_range=(-2000, 0), index_above=1.0, index_below=1.3), Uniform2
    if k == 3:
        ice = LayeredIce([UniformIce(1.35, valid_range=(-120, 0)), UniformIce(1.6, valid_range=(-900, -120)),
                          UniformIce(1.78, valid_range=(-2000, -900))])
        return ice, LayeredRayTracer
    return GreenlandIce(), RayTracer


def tr(p, turns, shift, vector=False):
    x, y, z = p
    for _ in range(turns % 4):
        x, y = -y, x
    if not vector:
        x, y = x + shift[0], y + shift[1]
    return (float(x), float(y), float(z))


class SceneDriver:
    def __init__(self):
        self.runs = 0
        self.known = []

    def stats(self):
        st = {'kernel_events_run': self.runs}
        self.runs = 0
        return st

    def cleanup(self):
        self.base = None

    def run(self, scene, turns, shift, aorder, porder):
        """-> per antenna (list order): list of (times, values) of the signals it received"""
        ice, tracer = scene_model(scene)
        parts = []
        for i in porder:
            d = PARTS[i]
            p = pyrex.Particle(d['pid'], tr(d['vertex'], turns, shift), tr(d['direction'], turns, shift, vector=True), d['energy'],
                               interaction_type=d['kind'])
            p.interaction.em_frac, p.interaction.had_frac = d['em'], d['had']
            parts.append(p)
        ants = [pyrex.DipoleAntenna(name='a%d' % i, position=tr(ANTS[i], turns, shift), center_frequency=250e6, bandwidth=300e6,
                                    temperature=300, resistance=100, effective_height=1.0, trigger_threshold=0, noisy=False)
                for i in aorder]
        kernel = EventKernel(pyrex.ListGenerator([pyrex.Event(parts)]), ants, ice_model=ice, ray_tracer=tracer, signal_times=TIMES)
        self.runs += 1
        kernel.event()
        return [[(np.array(s.times), np.array(s.values)) for s in a.signals] for a in ants]

    def reset(self, st):
        self.known = []
        sc = st['scene']
        both = self.run(sc, 0, (0, 0), [0, 1, 2], [0, 1])
        one = [self.run(sc, 0, (0, 0), [0, 1, 2], [i]) for i in (0, 1)]
        self.blocks = [[one[p][a] for p in (0, 1)] for a in range(3)]       # blocks[antenna][particle] -> list of signals
        # an event of two particles is the concatenation of the two single-particle events
        for a in range(3):
            self.same('scene %d, antenna %d: event [p1, p2] vs events [p1] and [p2]' % (sc, a), both[a], self.blocks[a][0] + self.blocks[a][1])
        # every received signal sits on the kernel's time grid delayed by the time of flight of one of the tracer's solutions,
        # in the order of the solutions (the kernel may drop solutions, e.g. beyond its off-cone cut, but never reorders)
        ice, tracer = scene_model(sc)
        for a in range(3):
            for pi in (0, 1):
                sols = tracer(np.array(PARTS[pi]['vertex'], dtype=float), np.array(ANTS[a], dtype=float), ice).solutions
                tofs = [float(s_.tof) for s_ in sols]
                pos = 0
                for k, (t, v) in enumerate(self.blocks[a][pi]):
                    d = float(t[0] - TIMES[0])
                    while pos < len(tofs) and abs(tofs[pos] - d) > 1e-15 + 1e-12 * abs(d):
                        pos += 1
                    if pos == len(tofs):
                        raise Divergence('scene %d, antenna %d, particle %d: start of received signal %d minus start of the kernel grid' % (sc, a, pi, k),
                                         'the time of flight of a (later) ray solution %s' % tofs, d)
                    if not np.allclose(t - t[0], TIMES - TIMES[0], rtol=0, atol=1e-18):
                        raise Divergence('scene %d, antenna %d, particle %d: grid of received signal %d' % (sc, a, pi, k), 'the kernel grid, delayed', 'another grid')
                    pos += 1
        if not any(both[a] for a in range(3)):
            raise Divergence('scene %d' % sc, 'some antenna receives a signal (vacuity)', 'none does')

    def step(self, label, st):
        aperm = [x - 1 for x in st['aperm']]
        pperm = [x - 1 for x in st['pperm']]
        got = self.run(st['scene'], st['turns'], st['shift'], aperm, pperm)
        for j, a in enumerate(aperm):
            want = self.blocks[a][pperm[0]] + self.blocks[a][pperm[1]]
            self.same('scene %d after %s (turns %d, shift %s, antenna order %s, particle order %s): antenna in slot %d (base antenna %d)' % (
                st['scene'], st['last']['op'], st['turns'], list(st['shift']), [x + 1 for x in aperm], [x + 1 for x in pperm], j + 1, a + 1), got[j], want)

    def same(self, where, got, want):
        if len(got) != len(want):
            raise Divergence(where + ': number of signals received', len(want), len(got))
        for k, ((tg, vg), (tw, vw)) in enumerate(zip(got, want)):
            if len(tg) != len(tw) or not np.allclose(tg, tw, rtol=0, atol=1e-15):
                raise Divergence(where + ': times of signal %d' % k, (float(tw[0]), len(tw)), (float(tg[0]), len(tg)))
            scale = max(float(np.max(np.abs(vw))), 1e-300)
            err = float(np.max(np.abs(vg - vw)))
            if not (err <= 1e-9 * scale):
                i = int(np.argmax(np.abs(vg - vw)))
                raise Divergence(where + ': signal %d, sample %d' % (k, i), float(vw[i]), float(vg[i]))
