"""Driver binding spec/Pipeline.tla to a real end-to-end run: scripted generator -> EventKernel (UniformRayTracer,
AVZ Askaryan model, two antennas) -> HDF5 writer -> reader -> FileGenerator -> second EventKernel."""
import os
import shutil
import numpy as np
import pyrex
from pyrex.ice_model import UniformIce
from pyrex.ray_tracing import UniformRayTracer
from pyrex.askaryan import AVZAskaryanSignal
from pyrex.io import File
from pyrex.generation import FileGenerator
from vlib.core import Divergence, VERIF

TIMES = np.linspace(-20e-9, 80e-9, 128, endpoint=False)


class Tracer1(UniformRayTracer):
    max_reflections = 1


class ScriptGen:
    """generator protocol: create_event() + count (count advances by the scripted number of throws)"""

    def __init__(self, script):
        self.script = list(script)
        self.count = 0
        self.i = 0

    def create_event(self):
        e = self.script[self.i]
        self.i += 1
        self.count += e['thrown']
        parts = []
        for j, kind in enumerate(e['parts']):
            z = -900.0 if kind == 'out' else -150.0 - 10 * j
            p = pyrex.Particle('nu_e', (40.0 + 5 * self.i, 20.0 * j, z), (0.3, 0.1, 0.9), 1e9, interaction_type='cc')
            p.interaction.em_frac, p.interaction.had_frac = 0.6, 0.4
            p.survival_weight = 0.1 if kind == 'light' else 1.0
            p.interaction_weight = 1.0
            parts.append(p)
        return pyrex.Event(parts)


def _nothing(call):
    try:
        return call()
    except ValueError as ex:
        if 'not saved in this file' in str(ex):
            return np.array([])
        raise


def any_hit(ants):
    return any(len(a.signals) > 0 for a in ants)


class PipelineDriver:
    def __init__(self):
        self.dir = os.path.join(VERIF, '.work', 'PIPE', 'files_%d' % os.getpid())
        self.events = 0

    def stats(self):
        st = {'end_to_end_events_simulated': self.events}
        self.events = 0
        return st

    def cleanup(self):
        for name in ('writer', 'reader'):
            o = getattr(self, name, None)
            try:
                if o is not None and o.is_open:
                    o.close()
            except Exception:
                pass
        self.writer = self.reader = None
        shutil.rmtree(self.dir, ignore_errors=True)

    def kernel(self, gen, writer):
        return pyrex.EventKernel(gen, self.ants, ice_model=self.ice, ray_tracer=Tracer1, signal_model=AVZAskaryanSignal,
                                 signal_times=TIMES, event_writer=writer, triggers=any_hit, offcone_max=None, weight_min=0.5)

    def reset(self, st):
        self.cleanup()
        os.makedirs(self.dir, exist_ok=True)
        self.path = os.path.join(self.dir, 'run.h5')
        self.ice = UniformIce(1.5, valid_range=(-500, 0), index_above=1.0, index_below=None)
        self.ants = [pyrex.Antenna(position=(0.0, 0.0, -100.0), noisy=False), pyrex.Antenna(position=(30.0, -10.0, -60.0), noisy=False)]
        self.gen = ScriptGen([{'parts': list(e['parts']), 'thrown': e['thrown']} for e in st['script']])
        self.writer = File(self.path, 'w', write_particles=True, write_triggers=True, write_rays=True, write_waveforms=True,
                           require_trigger=False)
        self.writer.open()
        self.k1 = self.kernel(self.gen, self.writer)

    def step(self, label, st):
        last = st['last']
        op = last['op']
        if op == 'Clear':
            for a in self.ants:
                a.clear()
        elif op == 'Event':
            self.events += 1
            ev, trig = self.k1.event()
            for i, a in enumerate(self.ants):
                if len(a.signals) != last['held']:
                    raise Divergence('signals held by antenna %d after event %d' % (i, last['k']), last['held'], len(a.signals))
            if bool(trig) != (last['held'] > 0):
                raise Divergence('trigger of event %d' % last['k'], last['held'] > 0, trig)
        elif op == 'Close':
            self.writer.close()
            self.reader = File(self.path, 'r')
            self.reader.open()
            if len(self.reader) != last['events']:
                raise Divergence('len(file)', last['events'], len(self.reader))
            if int(self.reader.total_events_thrown) != last['total_thrown'] or self.gen.count != last['total_thrown']:
                raise Divergence('total events thrown (file, generator.count)', last['total_thrown'],
                                 (int(self.reader.total_events_thrown), self.gen.count))
        elif op == 'ReadEvent':
            rec = last['rec']
            ev = self.reader[last['k'] - 1]
            np_ = len(ev.get_particle_info())
            if np_ != rec['np']:
                raise Divergence('particles of event %d read back' % last['k'], rec['np'], np_)
            rays = np.asarray(_nothing(lambda: ev.get_rays_info('path_length')))
            nr = [int(np.count_nonzero(rays[:, a])) if rays.ndim == 2 and rays.size else 0 for a in range(len(self.ants))]
            if nr != [rec['nr']] * len(self.ants):
                raise Divergence('ray rows per antenna of event %d' % last['k'], rec['nr'], nr)
            wf = _nothing(lambda: ev.get_waveforms())
            nw = [sum(1 for j in range(wf.shape[0]) if len(wf[j, a, 1])) if len(wf) else 0 for a in range(len(self.ants))]
            if nw != [rec['nw']] * len(self.ants):
                raise Divergence('waveforms per antenna of event %d' % last['k'], rec['nw'], nw)
            if bool(ev.triggered) != bool(rec['trig']):
                raise Divergence('trigger of event %d read back' % last['k'], rec['trig'], ev.triggered)
        elif op == 'StartResim':
            self.reader.close()
            self.gen2 = FileGenerator([self.path], slice_range=2)
            self.k2 = self.kernel(self.gen2, None)
        elif op == 'Resim':
            self.events += 1
            for a in self.ants:
                a.clear()
            ev, trig = self.k2.event()
            if len(list(ev)) != last['np']:
                raise Divergence('particles of replayed event %d' % last['k'], last['np'], len(list(ev)))
            for i, a in enumerate(self.ants):
                if len(a.signals) != last['rx']:
                    raise Divergence('signals at antenna %d in replayed event %d' % (i, last['k']), last['rx'], len(a.signals))
        elif op == 'Finish':
            if self.gen2.count != last['generator_count']:
                raise Divergence('FileGenerator.count after the replay', last['generator_count'], self.gen2.count)
            try:
                self.gen2.create_event()
            except StopIteration:
                pass
            else:
                raise Divergence('FileGenerator after the last event', 'StopIteration', 'another event')
        else:
            raise Divergence('op', 'known op', op)
