"""Driver binding spec/EarthRel.tla to pyrex.earth_model (PREM, CoreMantleCrustModel) (C15, discrete + relational core)."""
import numpy as np
from pyrex.earth_model import PREM, CoreMantleCrustModel
from vlib.core import Divergence

MODELS = {'PREM': PREM, 'CMC': CoreMantleCrustModel}
# endpoints (x, y, z) with z relative to the surface; 5 and 6 lie above it
ENDPOINTS = {1: (0.0, 0.0, 0.0), 2: (0.0, 0.0, -1000.0), 3: (300.0, 400.0, -2000.0), 4: (1e5, -2e5, -3000.0),
             5: (0.0, 0.0, 100.0), 6: (-700.0, 2400.0, 2500.0),
             7: (-1.5e5, 0.0, -2000.0), 8: (-1.2e5, -9.0e4, -4500.0)}     # far off the axis (the local vertical is not the radial direction),
             # placed so that the base azimuth (3, 4) heads back towards the axis: a locally horizontal chord then dips below its start
# zenith angle (degrees from straight up) of the chord direction: index 3 is horizontal
ZEN = [0.0, 60.0, 85.0, 90.0, 90.5, 91.0, 95.0, 120.0, 150.0, 180.0]
AZ = (3.0, 4.0)        # base azimuth (3,4,5 triangle)
STEPS = (500, 137.0)


def to_axis(u):
    """rotation matrix taking the unit vector u to (0, 0, 1)"""
    v = np.cross(u, [0.0, 0.0, 1.0])
    s2 = float(np.dot(v, v))
    if s2 == 0:
        return np.eye(3)
    c = float(u[2])
    K = np.array([[0, -v[2], v[1]], [v[2], 0, -v[0]], [-v[1], v[0], 0]])
    return np.eye(3) + K + K @ K * ((1 - c) / s2)


def rot(x, y, n):
    for _ in range(n % 4):
        x, y = -y, x
    return x, y


class EarthDriver:
    def __init__(self, model='PREM'):
        self.model = MODELS[model]()
        self.name = model
        self.evals = 0
        self.known = []

    def stats(self):
        st = {'earth_model_evaluations': self.evals}
        self.evals = 0
        return st

    def cleanup(self):
        pass

    def slant(self, st, step):
        x, y, z = ENDPOINTS[st['ep']]
        x, y = rot(x, y, st['turns'])
        th = np.radians(ZEN[st['zen']])
        dx, dy = rot(AZ[0] / 5.0, AZ[1] / 5.0, st['turns'])
        sin, cos = np.sin(th), np.cos(th)
        if ZEN[st['zen']] == 180.0:
            sin, cos = 0.0, -1.0
        if ZEN[st['zen']] == 90.0:
            cos = 0.0
        d = np.array([sin * dx, sin * dy, cos]) * float(st['k'])
        self.evals += 1
        if st['axis']:
            R = self.model.earth_radius
            e = np.array([x, y, z + R])
            r0 = float(np.linalg.norm(e))
            M = to_axis(e / r0)
            d = M @ d
            x, y, z = 0.0, 0.0, r0 - R
        return float(self.model.slant_depth((x, y, z), d, step=step))

    def reset(self, st):
        self.known = []
        self.prev = [self.slant(st, s) for s in STEPS]
        self.check_zero(st, st['last'])

    def check_zero(self, st, last):
        for s, v in zip(STEPS, self.prev):
            if not np.isfinite(v) or v < 0:
                raise Divergence(self.where(st, s), 'finite and >= 0', v)
            if last.get('zero') and v != 0 and not st['axis']:
                raise Divergence(self.where(st, s) + ' (chord never enters the Earth)', 0, v)

    def where(self, st, step):
        return '%s slant_depth(endpoint %s turned %d, zenith %g deg, |direction| %d, step %g)' % (
            self.name, ENDPOINTS[st['ep']], st['turns'], ZEN[st['zen']], st['k'], step)

    def step(self, label, st):
        last = st['last']
        if last['op'] == 'Probe':
            return self.probe(last)
        cur = [self.slant(st, s) for s in STEPS]
        for s, c, p in zip(STEPS, cur, self.prev):
            # the chord ends on the surface, where the density jumps to 0: whether the last trapezoid node falls inside or
            # outside is decided by rounding, so two evaluations of the same chord may differ by one end cell
            # (step/2 x surface density at each end) -- the discretisation error the property allows
            slack = 100.0 * s * 3.0 + 1e-10 * abs(p)
            if last['rel'] == 'eq':
                if not (abs(c - p) <= slack):
                    raise Divergence(self.where(st, s) + ' after %s' % last['op'], p, c)
            elif c < p - slack:
                raise Divergence(self.where(st, s) + ' after dipping deeper', '>= %r' % p, c)
        self.prev = cur
        self.check_zero(st, last)

    def law(self, shell, r):
        if shell == 0:
            return 0.0
        d = self.model.densities[shell - 1]
        x = r / self.model.earth_radius
        return float(d(x)) if callable(d) else float(d)

    def probe(self, last):
        rs = [int(r) for r in last['rs']]
        want = np.array([self.law(s, float(r)) for s, r in zip(last['shells'], rs)])
        form = last['form']
        self.evals += 1
        if form == 'scalar':
            for r, w in zip(rs, want):
                got = self.model.density(float(r))
                if np.shape(got) != ():
                    raise Divergence('%s density(%r) shape' % (self.name, float(r)), (), np.shape(got))
                self.cmp(r, w, float(got), form)
            return
        if form == 'int':
            for r, w in zip(rs, want):
                got = self.model.density(int(r))
                self.cmp(r, w, float(got), form)
            return
        arg = {'list': [float(r) for r in rs], 'array': np.array(rs, dtype=float), 'column': np.array(rs, dtype=float).reshape(-1, 1)}[form]
        got = np.asarray(self.model.density(arg))
        if got.shape != np.shape(arg):
            raise Divergence('%s density(%s of %d radii) shape' % (self.name, form, len(rs)), np.shape(arg), got.shape)
        for r, w, g in zip(rs, want, got.reshape(-1)):
            self.cmp(r, w, float(g), form)

    def cmp(self, r, w, g, form):
        if not (abs(g - w) <= 1e-12 * max(abs(w), 1.0)):
            raise Divergence('%s density(%d m) [%s input]' % (self.name, r, form), w, g)
