"""Driver binding spec/UniformImage.tla to pyrex.ray_tracing.UniformRayTracer (C18 uniform half, C02 count table).

Every behaviour of the spec is one ray (case + boundaries hit + vertical travel).  The real tracer is run
for that geometry under several horizontal offsets and azimuths (lattice directions, exact) and refractive
indices; the matching solution must have the image-method length, tof = n L / c, directions and reflection
points; the number of solutions must follow the boundary-index table; exists <=> solutions non-empty.
"""
import numpy as np
import scipy.constants
from pyrex.ice_model import UniformIce
from pyrex.ray_tracing import UniformRayTracer
from vlib.core import Divergence

AZIMUTHS = [(1.0, 0.0), (0.0, 1.0), (0.6, 0.8), (-0.8, 0.6), (0.0, -1.0)]
OFFSETS = [(0.0, 0.0), (300.0, -200.0), (-1e4, 7.0)]
RTOL = 1e-9


class Tracer3(UniformRayTracer):
    max_reflections = 3


def count(maxr, above, below):
    n = 1
    for r in range(1, maxr + 1):
        for d in (1, -1):
            if ((r > 1 or d == 1) and not above) or ((r > 1 or d == -1) and not below):
                continue
            n += 1
    return n


class UniformDriver:
    def __init__(self):
        self.cases = 0
        self.known = []

    def stats(self):
        st = {'uniform_geometries_traced': self.cases}
        self.cases = 0
        return st

    def cleanup(self):
        pass

    def reset(self, st):
        pass

    def step(self, label, st):
        if st['pc'] != 'done':
            return
        c = st['cs']
        pts_ = list(st['pts'])
        degenerate = c['r'] >= 1 and (pts_[0] == c['z0'] or pts_[-1] == c['z1'])
        if not degenerate:
            return self.check(st)
        # open known finding D23: an endpoint lies exactly on the boundary its adjacent leg reflects from
        try:
            self.check(st)
        except Divergence as dv:
            self.known.append(('D23', '%s: %s' % (dict(c), dv.field)))
        except ValueError as ex:
            self.known.append(('D23', '%s: %r' % (dict(c), ex)))

    def check(self, st):
        c = st['cs']
        Z = st['walked']
        pts = list(st['pts'])
        rho, r, d = c['rho'], c['r'], c['d']
        L = int(round(np.sqrt(rho * rho + Z * Z)))
        assert L * L == rho * rho + Z * Z
        k = (c['D'] + c['z0'] + 3 * c['z1'] + rho + r) % 15
        ux, uy = AZIMUTHS[k % len(AZIMUTHS)]
        x0, y0 = OFFSETS[(k // 2) % len(OFFSETS)]
        n = (1.5, 2.0, 1.78)[k % 3]
        for above, below in ((1.0, 1.2), (1.0, None), (None, 1.2), (None, None)):
            ice = UniformIce(n, valid_range=(-c['D'], 0), index_above=above, index_below=below)
            src = np.array([x0, y0, float(c['z0'])])
            dst = np.array([x0 + rho * ux, y0 + rho * uy, float(c['z1'])])
            if (k + (above is None)) % 2 and all(float(v).is_integer() for v in list(src) + list(dst)):
                # integer-typed endpoints (lists of python ints): results must not depend on the dtype
                tr = Tracer3([int(v) for v in src], [int(v) for v in dst], ice)
            else:
                tr = Tracer3(src, dst, ice)
            sols = tr.solutions
            self.cases += 1
            if bool(tr.exists) != (len(sols) > 0):
                raise Divergence('exists', len(sols) > 0, tr.exists)
            want_n = count(3, above is not None, below is not None)
            if len(sols) != want_n:
                raise Divergence('number of solutions (index_above=%s, index_below=%s)' % (above, below), want_n, len(sols))
            allowed = r == 0 or not (((r > 1 or d == 1) and above is None) or ((r > 1 or d == -1) and below is None))
            match = []
            for s in sols:
                try:
                    xs, ys, zs = s.coordinates
                except ValueError as ex:
                    if c['z0'] == c['z1'] and c['z0'] in (0, -c['D']):
                        # D23: both endpoints on one boundary, the reflection off it has no vertical travel
                        self.known.append(('D23', '%s: %r' % (dict(c), ex)))
                        continue
                    raise
                nr = len(zs) - 2
                if nr != r:
                    continue
                if r > 0 and (1 if zs[1] == 0 else -1) != d:      # first reflection off the top (0) or the bottom (-D)
                    continue
                match.append(s)
            if not allowed:
                if match:
                    raise Divergence('solution with %d reflections starting %+d' % (r, d), 'absent (boundary index is None)', 'present')
                continue
            if len(match) != 1:
                raise Divergence('solutions with %d reflections starting %+d' % (r, d), 1, len(match))
            s = match[0]
            where = 'case %s az=(%g,%g) off=(%g,%g) n=%g' % (dict(c), ux, uy, x0, y0, n)
            self.close(where + ' path_length', s.path_length, float(L), L)
            self.close(where + ' tof', s.tof, n * L / scipy.constants.c, n * L / scipy.constants.c)
            if r == 0:
                ez = (c['z1'] - c['z0']) / L
                fz = ez
            else:
                ez = d * Z / L
                fz = (d if r % 2 == 0 else -d) * Z / L
            self.vec(where + ' emitted_direction', s.emitted_direction, (rho / L * ux, rho / L * uy, ez))
            self.vec(where + ' received_direction', s.received_direction, (rho / L * ux, rho / L * uy, fz))
            xs, ys, zs = s.coordinates
            # reflection points: on the boundaries, horizontal progress proportional to vertical travel
            zprev, acc = c['z0'], 0.0
            for i, b in enumerate(pts):
                acc += abs(b - zprev)
                zprev = b
                frac = acc / Z
                self.vec(where + ' reflection point %d' % (i + 1), (xs[i + 1], ys[i + 1], zs[i + 1]),
                         (x0 + rho * frac * ux, y0 + rho * frac * uy, float(b)), scale=max(1.0, abs(x0), abs(y0), rho))
            self.vec(where + ' first point', (xs[0], ys[0], zs[0]), tuple(src), scale=max(1.0, abs(x0)))
            self.vec(where + ' last point', (xs[-1], ys[-1], zs[-1]), tuple(dst), scale=max(1.0, abs(x0), rho))

    @staticmethod
    def close(where, got, want, scale):
        if not abs(got - want) <= RTOL * max(abs(scale), 1e-300):
            raise Divergence(where, want, float(got))

    @staticmethod
    def vec(where, got, want, scale=1.0):
        g, w = np.asarray(got, dtype=float), np.asarray(want, dtype=float)
        if g.shape != w.shape or not np.all(np.abs(g - w) <= 1e-9 * scale):
            raise Divergence(where, [float(x) for x in w], [float(x) for x in g])
