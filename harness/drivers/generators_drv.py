"""Drivers binding spec/Generators.tla and spec/ExitPoints.tla to pyrex.generation (C13, discrete / geometric core)."""
import numpy as np
import pyrex
from pyrex.generation import CylindricalGenerator, RectangularGenerator, ListGenerator
from pyrex.particle import Particle, Event
from vlib.core import Divergence


class ScriptedEarth:
    """slant_depth scripted per throw: 0 -> survival weight 1, huge -> survival weight 0"""

    def __init__(self):
        self.script = []
        self.calls = 0

    def slant_depth(self, endpoint, direction, step=500):
        self.calls += 1
        survives = self.script.pop(0)
        return 0.0 if survives else 1e40


class GeneratorDriver:
    def __init__(self):
        self.calls = 0

    def stats(self):
        st = {'generator_calls_compared': self.calls}
        self.calls = 0
        return st

    def cleanup(self):
        self.gen = None

    uniform_done = set()

    def reset(self, st):
        self.st0 = st
        self.earth = ScriptedEarth()
        if st['kind'] == 'random':
            cls = CylindricalGenerator if (st['n'] + int(st['shadow'])) % 2 else RectangularGenerator
            args = dict(dr=100, dz=200) if cls is CylindricalGenerator else dict(dx=100, dy=150, dz=200)
            self.energy_calls = 0

            def energy():
                self.energy_calls += 1
                return 1e9 + self.energy_calls          # a new energy for every throw

            self.gen = cls(energy=energy, shadow=bool(st['shadow']), earth_model=self.earth, **args)
        else:
            self.events = [Event(Particle('nu_e', (i, 0, -10), (0, 0, 1), 1e8, interaction_type='cc')) for i in range(st['n'])]
            self.gen = ListGenerator(list(self.events), loop=bool(st['loop']))
        if self.gen.count != 0:
            raise Divergence('initial count', 0, self.gen.count)

    def step(self, label, st):
        last = st['last']
        op = last['op']
        self.calls += 1
        if op == 'CreateRandom':
            # TLC prints only the number of throws; all but the last are rejected, the last survives iff `survives`
            self.earth.script = [False] * (last['throws'] - 1) + [bool(last['survives'])]
            self.earth.calls = 0
            np.random.seed(last['count'])
            ev = self.gen.create_event()
            if self.earth.calls != last['throws']:
                raise Divergence('number of throws made by one create_event()', last['throws'], self.earth.calls)
            if self.gen.count != last['count']:
                raise Divergence('generator.count', last['count'], self.gen.count)
            p = list(ev)[0]
            # uniform in the volume (once per generator class and driver): 4096 seeded vertices, occupancy of the eight equal-volume
            # cells (halves of r^2 / x, of azimuth / y, of z) within 6 sigma of 512 -- a statement about the distribution, not about
            # how it is sampled
            cls_name = type(self.gen).__name__
            if cls_name not in self.uniform_done:
                self.uniform_done.add(cls_name)
                state = np.random.get_state()
                np.random.seed(20260927)
                vs = np.array([self.gen.get_vertex() for _ in range(4096)], dtype=float)
                np.random.set_state(state)
                if isinstance(self.gen, CylindricalGenerator):
                    f = [(vs[:, 0] ** 2 + vs[:, 1] ** 2) / self.gen.dr ** 2, (np.arctan2(vs[:, 1], vs[:, 0]) % (2 * np.pi)) / (2 * np.pi), -vs[:, 2] / self.gen.dz]
                else:
                    f = [(vs[:, 0] + self.gen.dx / 2) / self.gen.dx, (vs[:, 1] + self.gen.dy / 2) / self.gen.dy, -vs[:, 2] / self.gen.dz]
                if not all(np.all((u >= 0) & (u <= 1)) for u in f):
                    raise Divergence('%s vertices' % cls_name, 'inside the declared volume', 'some outside')
                cell = (f[0] >= 0.5).astype(int) * 4 + (f[1] >= 0.5).astype(int) * 2 + (f[2] >= 0.5).astype(int)
                occ = np.bincount(cell, minlength=8)
                if not np.all(np.abs(occ - 512) <= 6 * np.sqrt(4096 * 0.125 * 0.875)):
                    raise Divergence('%s: occupancy of the eight equal-volume cells by 4096 vertices' % cls_name, '512 +- 127 each', occ.tolist())
            if self.energy_calls != last['count']:
                raise Divergence('energies drawn from the source (one per throw)', last['count'], self.energy_calls)
            if p.energy != 1e9 + last['count']:
                raise Divergence('energy of the returned particle (the one drawn for its own throw)', 1e9 + last['count'], p.energy)
            # weights are functions of the particle as it is now: change its energy and compare with a fresh particle
            real_earth, self.gen.earth_model = self.gen.earth_model, pyrex.earth_model.PREM() if hasattr(pyrex, 'earth_model') else self.gen.earth_model
            try:
                w1 = self.gen.get_weights(p)
                p.energy = p.energy * 100
                w2 = self.gen.get_weights(p)
                q = Particle(p.id, p.vertex, p.direction, p.energy, interaction_model=type(p.interaction), interaction_type=p.interaction.kind)
                w3 = self.gen.get_weights(q)
                # both weights as the property writes them, with the same (total) interaction length in each:
                #   survival = exp(-column depth / L),  interaction = chord / L_ice * exp(-travelled / L_ice)
                lam = float(q.interaction.total_interaction_length)
                col = float(self.gen.earth_model.slant_depth(q.vertex, -np.asarray(q.direction)))
                ent, ext = self.gen.get_exit_points(q)
                chord = float(np.linalg.norm(np.asarray(ext, dtype=float) - np.asarray(ent, dtype=float)))
                trav = float(np.linalg.norm(np.asarray(q.vertex, dtype=float) - np.asarray(ent, dtype=float)))
                lam_ice = lam / 0.92 / 100
                want_w = (float(np.exp(-col / lam)), chord / lam_ice * float(np.exp(-trav / lam_ice)))
            finally:
                self.gen.earth_model = real_earth
            if not np.allclose(w2, w3, rtol=1e-9, atol=0):
                raise Divergence('get_weights after changing the particle energy vs fresh particle', [float(x) for x in w3], [float(x) for x in w2])
            if not np.allclose(w3, want_w, rtol=1e-9, atol=0):
                raise Divergence('get_weights (survival, interaction) vs exp(-column / L) and chord / L_ice * exp(-travelled / L_ice) with the '
                                 'total interaction length', list(want_w), [float(x) for x in w3])
            want_sw = 1.0 if last['shadow'] else (1.0 if last['survives'] else 0.0)
            if not (abs(p.survival_weight - want_sw) <= 1e-12):
                raise Divergence('survival_weight of the returned particle', want_sw, p.survival_weight)
        elif op == 'CreateList':
            try:
                ev = self.gen.create_event()
                got = 'event'
            except StopIteration:
                got = 'stop'
            if got != last['res']:
                raise Divergence('ListGenerator.create_event()', last['res'], got)
            if got == 'event' and ev is not self.events[last['which'] - 1]:
                raise Divergence('event returned by the list generator', 'events[%d]' % (last['which'] - 1), 'another event')
            if self.gen.count != last['count']:
                raise Divergence('ListGenerator.count', last['count'], self.gen.count)
        elif op == 'SetCount':
            self.gen.count = last['c']
            if self.gen.count != last['c']:
                raise Divergence('count after assignment', last['c'], self.gen.count)
        elif op == 'PickType':
            ratio = [x / 100.0 for x in last['ratio']]
            g = CylindricalGenerator(dr=10, dz=10, energy=1e9, flavor_ratio=tuple(ratio), source=last['source'])
            vals = [(last['rf'] + 0.5) / 100.0, (last['rn'] + 0.5) / 100.0]
            orig = np.random.rand
            np.random.rand = lambda *a: vals.pop(0)
            try:
                t = g.get_particle_type()
            finally:
                np.random.rand = orig
            fl = {'e': 'electron', 'mu': 'muon', 'tau': 'tau'}[last['res']['flavour']]
            want = '%s_%s' % (fl, 'antineutrino' if last['res']['anti'] else 'neutrino')
            if t.name != want:
                raise Divergence('particle type for random numbers %s, ratio %s, source %s' % (vals, ratio, last['source']), want, t.name)
        else:
            raise Divergence('op', 'known op', op)


class ExitPointDriver:
    def __init__(self):
        self.cases = 0

    def stats(self):
        st = {'exit_point_cases': self.cases}
        self.cases = 0
        return st

    def cleanup(self):
        pass

    def reset(self, st):
        pass

    def step(self, label, st):
        last = st['last']
        c = st['cs']
        X, Y, Z, R = 4, 3, 4, 5
        if c['shape'] == 'box':
            gen = RectangularGenerator(dx=2 * X, dy=2 * Y, dz=Z, energy=1e9)
        else:
            gen = CylindricalGenerator(dr=R, dz=Z, energy=1e9)
        v = np.array([float(x) for x in c['v']])
        d = np.array([float(x) for x in c['d']])
        p = Particle('nu_e', v, d, 1e9, interaction_type='cc')
        self.cases += 1
        try:
            enter, exit_ = gen.get_exit_points(p)
        except ValueError as ex:
            raise Divergence('get_exit_points(%s)' % dict(c), 'entry and exit points', repr(ex))
        for name, got, t in (('entry', enter, last['enter']), ('exit', exit_, last['exit'])):
            want = v + d * (t[0] / t[1])
            if not np.allclose(np.asarray(got, dtype=float), want, rtol=0, atol=1e-9):
                raise Divergence('%s point of %s' % (name, dict(c)), [float(x) for x in want], [float(x) for x in got])
