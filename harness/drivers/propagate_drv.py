"""Driver binding spec/PropagateRel.tla to RayPath.propagate of every shipped tracer (C03, relational core).

Base grid: N = 64 samples of step 2^-30 s (0.93 ns) starting at sample 11; the basis signals are integer valued.
For every solution of the tracer at the state's geometry the base outputs propagate(s_i, e_j) (s and p parts) and
propagate(s_i) are computed at the initial state; at every later state propagate() of the combined input is
compared with the predicted combination (1e-9 of the largest base output times the sum of |coefficients|).
"""
import numpy as np
import pyrex
from vlib.core import Divergence
from drivers.symmetry_drv import make

DT = 2.0 ** -30
N = 64
S1 = np.zeros(N)
S1[20:26] = [3, -7, 12, -9, 4, -1]
S2 = np.array([((7 * k * k + 3 * k) % 11) - 5 for k in range(N)], dtype=float)
BASIS = [S1, S2]
E = np.eye(3)
GEOS = {1: ((0, 0, -100), (100, 0, -200)),
        2: ((0, 0, -1000), (500, 300, -50)),
        3: ((10, 20, -500), (10, 20, -100)),        # exactly vertical
        4: ((0, 0, -150), (300, 0, -150)),
        5: ((-40, 30, -30), (200, -100, -700))}
INTERP = {0: None, 1: 0.1}
FREQS = np.array([0.0, 1e6, 1e7, 5e7, 1e8, 2e8, 3e8, 5e8, 7e8, 1e9])
TOL = 1e-9


def grid(mg):
    return (11 + mg + np.arange(N)) * DT


class PropagateDriver:
    def __init__(self):
        self.calls = 0
        self.known = []
        self.cache = {}

    def stats(self):
        st = {'propagate_calls': self.calls}
        self.calls = 0
        return st

    def cleanup(self):
        self.base = None

    def paths(self, st):
        key = (st['tracer'], st['geo'])
        if key not in self.cache:
            cls, ice, tol, gradient = make(st['tracer'])
            src, dst = GEOS[st['geo']]
            tr = cls(np.array(src, dtype=float), np.array(dst, dtype=float), ice)
            self.cache[key] = list(tr.solutions)
        return self.cache[key]

    def prop(self, path, values, pol, mg, interp):
        self.calls += 1
        sig = pyrex.Signal(grid(mg), values, value_type='field')
        kw = {} if interp is None else {'attenuation_interpolation': interp}
        if pol is None:
            return sig, path.propagate(sig, **kw)
        return sig, path.propagate(sig, polarization=pol, **kw)

    def reset(self, st):
        self.known = []
        self.tracer = st['tracer']
        interp = INTERP[st['interp']]
        self.base = []
        self.gain = []
        for k, path in enumerate(self.paths(st)):
            where = '%s geometry %d solution %d' % (st['tracer'], st['geo'], k)
            Bs = [[None] * 3 for _ in range(2)]
            Bp = [[None] * 3 for _ in range(2)]
            B0 = [None] * 2
            for i in range(2):
                B0[i] = np.array(self.prop(path, BASIS[i], None, 0, interp)[1].values)
                for j in range(3):
                    (s, p), _ = self.prop(path, BASIS[i], E[j], 0, interp)[1]
                    Bs[i][j], Bp[i][j] = np.array(s.values), np.array(p.values)
            big = max(float(np.max(np.abs(x))) for x in B0 + sum(Bs, []) + sum(Bp, []))
            self.base.append((Bs, Bp, B0, big))
            self.static(path, where)
            rs, rp = path.fresnel
            self.gain.append(max(1.0, abs(rs), abs(rp)) ** 2 if self.known else 1.0)

    def static(self, path, where):
        """clauses that do not depend on the input signal"""
        att = np.asarray(path.attenuation(FREQS), dtype=float)
        if not (np.all(att > 0) and np.all(att <= 1 + 1e-12)):
            raise Divergence(where + ': attenuation factors at %s' % list(FREQS), 'in (0, 1]', list(att))
        if np.any(np.diff(att) > 1e-12):
            raise Divergence(where + ': attenuation factors along increasing |f|', 'not growing', list(att))
        neg = np.asarray(path.attenuation(-FREQS), dtype=float)
        if not np.allclose(neg, att, rtol=1e-12, atol=0):
            raise Divergence(where + ': attenuation at -f', list(att), list(neg))
        rs, rp = path.fresnel
        for nm, r in (('r_s', rs), ('r_p', rp)):
            if not abs(r) <= 1 + 1e-12:
                if self.tracer == 'layered' and np.isfinite(abs(r)) and self.transmits(path):
                    # D31: amplitude transmission coefficients into a layer of lower index exceed 1 (physical, but not what C03 states)
                    self.known.append(('D31', '%s: |%s| = %.4f' % (where, nm, abs(r))))
                    continue
                raise Divergence(where + ': |%s|' % nm, '<= 1', abs(r))
        us, up = path.propagate(polarization=[0, 0, 1])
        self.vectors(where, us, up, path)

    @staticmethod
    def transmits(path):
        """the layered path crosses at least one boundary into a layer of lower index"""
        ns = [float(sub.ice.index(0.5 * (sub.z0 + sub.z1))) for sub in getattr(path, 'paths', [])]
        return any(b < a for a, b in zip(ns, ns[1:]))

    def vectors(self, where, us, up, path):
        us, up = np.asarray(us, dtype=float), np.asarray(up, dtype=float)
        rd = np.asarray(path.received_direction, dtype=float)
        rd = rd / np.linalg.norm(rd)
        vals = {'|u_s|': (np.linalg.norm(us), 1.0), '|u_p|': (np.linalg.norm(up), 1.0), 'u_s . u_p': (float(np.dot(us, up)), 0.0),
                'u_s . received_direction': (float(np.dot(us, rd)), 0.0), 'u_p . received_direction': (float(np.dot(up, rd)), 0.0)}
        for nm, (got, want) in vals.items():
            if abs(got - want) > 1e-9:
                raise Divergence('%s: polarization vectors (%s, %s): %s' % (where, list(us), list(up), nm), want, got)

    def step(self, label, st):
        interp = INTERP[st['interp']]
        a, c, mg = st['a'], st['c'], st['mg']
        vals = a[0] * S1 + a[1] * S2
        pol = c[0] * E[0] + c[1] * E[1] + c[2] * E[2]
        M, R = st['M'], st['R']
        e_in = float(np.sum(vals ** 2))
        for k, path in enumerate(self.paths(st)):
            Bs, Bp, B0, big = self.base[k]
            where = '%s geometry %d solution %d after %s (a=%s, c=%s, grid moved %d, interpolation %s)' % (
                st['tracer'], st['geo'], k, st['last']['op'], list(a), list(c), mg, interp)
            sig, out = self.prop(path, vals, None, mg, interp)
            self.same_grid(where + ' [no polarization]', sig, out, path)
            want = sum(R[i] * B0[i] for i in range(2))
            self.close(where + ' [no polarization]', np.asarray(out.values), want, big * max(1, sum(abs(x) for x in R)))
            if float(np.sum(np.asarray(out.values) ** 2)) > e_in * (1 + 1e-9) + 1e-300:
                raise Divergence(where + ' [no polarization]: output energy', '<= %g' % e_in, float(np.sum(np.asarray(out.values) ** 2)))
            sig, ((s, p), (us, up)) = self.prop(path, vals, pol, mg, interp)
            self.same_grid(where + ' [s]', sig, s, path)
            self.same_grid(where + ' [p]', sig, p, path)
            wsum = max(1, sum(abs(x) for row in M for x in row))
            self.close(where + ' [s]', np.asarray(s.values), sum(M[i][j] * Bs[i][j] for i in range(2) for j in range(3)), big * wsum)
            self.close(where + ' [p]', np.asarray(p.values), sum(M[i][j] * Bp[i][j] for i in range(2) for j in range(3)), big * wsum)
            e_out = float(np.sum(np.asarray(s.values) ** 2) + np.sum(np.asarray(p.values) ** 2))
            if e_out > self.gain[k] * float(np.dot(pol, pol)) * e_in * (1 + 1e-9) + 1e-300:
                raise Divergence(where + ': energy of s + p outputs', '<= |c|^2 * input energy = %g' % (float(np.dot(pol, pol)) * e_in), e_out)
            self.vectors(where, us, up, path)

    def same_grid(self, where, sig, out, path):
        want = np.asarray(sig.times) + path.tof
        if len(out.times) != len(want) or not np.array_equal(np.asarray(out.times), want):
            raise Divergence(where + ': output times', 'input grid + time of flight', 'different grid (first %r vs %r)' % (
                float(out.times[0]), float(want[0])))
        if len(out.values) != len(sig.values):
            raise Divergence(where + ': len(values)', len(sig.values), len(out.values))
        if out.value_type != sig.value_type:
            raise Divergence(where + ': value_type', sig.value_type, out.value_type)

    def close(self, where, got, want, scale):
        err = float(np.max(np.abs(got - want)))
        if not err <= TOL * max(scale, 1e-300):
            k = int(np.argmax(np.abs(got - want)))
            raise Divergence(where + ': sample %d vs the predicted combination of base outputs' % k, float(want[k]), float(got[k]))
