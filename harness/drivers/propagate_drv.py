"""Driver binding spec/PropagateRel.tla to RayPath.propagate of every shipped tracer (C03, relational core).

Base grid: N = 64 samples of step 2^-30 s (0.93 ns) starting at sample 11; the basis signals are integer valued.
For every solution of the tracer at the state's geometry the base outputs propagate(s_i, e_j) (s and p parts) and
propagate(s_i) are computed at the initial state; at every later state propagate() of the combined input is
compared with the predicted combination (1e-9 of the largest base output times the sum of |coefficients|).

The compared calls are made on one long-lived path object per (tracer, geometry); the base outputs of every grid
step come from a fresh tracer each (cached per worker: they are deterministic), so state that a path keeps from
an earlier propagate() -- e.g. an attenuation table keyed by the number of samples -- shows as a divergence after
ChangeStep.  Independently of the relations the base outputs are compared with an explicit transcription of the
documented meaning: zero-padded FFT, every component times attenuation(|f|) times the Fresnel coefficient
(conjugated at negative frequencies), scaled by the projection of the polarization on the launch s / p direction.
"""
import numpy as np
import pyrex
from vlib.core import Divergence
from drivers.symmetry_drv import make as _make
from pyrex.signals import FunctionSignal, EmptySignal
from pyrex.ice_model import AntarcticIce
from pyrex.ray_tracing import SpecializedRayTracer


def make(kind):
    if kind == 'specialized-above':
        # a medium of index 1.3 above the ice: reflections that would be total against air are partial here
        return SpecializedRayTracer, AntarcticIce(index_above=1.3), 1e-6, True
    return _make(kind)

DT = 2.0 ** -30
STEP = {1: 1.0, 2: 2.0, 3: 0.5}                # grid step in units of DT
N = 64
S1 = np.zeros(N)
S1[20:26] = [3, -7, 12, -9, 4, -1]
S2 = np.array([((7 * k * k + 3 * k) % 11) - 5 for k in range(N)], dtype=float)
BASIS = [S1, S2]
E = np.eye(3)
GEOS = {1: ((0, 0, -100), (100, 0, -200)),
        2: ((0, 0, -1000), (500, 300, -50)),
        3: ((10, 20, -500), (10, 20, -100)),        # exactly vertical
        4: ((0, 0, -150), (300, 0, -150)),
        5: ((-40, 30, -30), (200, -100, -700)),
        6: ((10, 20, -1000), (10.0, 20.2, -100))}   # nearly vertical (launch angle 2e-4 rad)
INTERP = {0: None, 1: 0.1}
FREQS = np.array([0.0, 1e6, 1e7, 5e7, 1e8, 2e8, 3e8, 5e8, 7e8, 1e9])
TOL = 1e-9


def grid(mg, sx=1):
    return (11 + mg + np.arange(N)) * (DT * STEP[sx])


def oracle(values, dt, att, r):
    """documented meaning of propagate(): zero-padded FFT filter with attenuation(|f|) * r (conjugate for f < 0)"""
    n = len(values)
    spec = np.fft.fft(np.concatenate((values, np.zeros(n))))
    f = np.fft.fftfreq(2 * n, d=dt)
    resp = np.asarray(att(np.abs(f)), dtype=float) * np.where(f < 0, np.conj(complex(r)), complex(r))
    return np.real(np.fft.ifft(spec * resp))[:n]


def unit(v):
    v = np.asarray(v, dtype=float)
    m = np.linalg.norm(v)
    return v / m if m else v


class PropagateDriver:
    def __init__(self):
        self.calls = 0
        self.known = []
        self.cache = {}
        self.basecache = {}

    def stats(self):
        st = {'propagate_calls': self.calls}
        self.calls = 0
        return st

    def cleanup(self):
        self.bases = {}

    def fresh_paths(self, st):
        cls, ice, tol, gradient = make(st['tracer'])
        src, dst = GEOS[st['geo']]
        tr = cls(np.array(src, dtype=float), np.array(dst, dtype=float), ice)
        return list(tr.solutions)

    def paths(self, st):
        key = (st['tracer'], st['geo'])
        if key not in self.cache:
            self.cache[key] = self.fresh_paths(st)
        return self.cache[key]

    def prop(self, path, values, pol, mg, interp, sx=1):
        self.calls += 1
        sig = pyrex.Signal(grid(mg, sx), values, value_type='field')
        kw = {} if interp is None else {'attenuation_interpolation': interp}
        if pol is None:
            return sig, path.propagate(sig, **kw)
        return sig, path.propagate(sig, polarization=pol, **kw)

    def reset(self, st):
        self.known = []
        self.tracer = st['tracer']
        self.bases = {}
        self.get_base(st, 1)

    def get_base(self, st, sx):
        """base outputs on the grid of step index sx, from a fresh tracer; cached per worker (deterministic)"""
        key = (st['tracer'], st['geo'], st['interp'], sx)
        if key not in self.basecache:
            interp = INTERP[st['interp']]
            out, known = [], []
            for k, path in enumerate(self.fresh_paths(st)):
                where = '%s geometry %d solution %d (grid step %g)' % (st['tracer'], st['geo'], k, STEP[sx])
                Bs = [[None] * 3 for _ in range(2)]
                Bp = [[None] * 3 for _ in range(2)]
                B0 = [None] * 2
                for i in range(2):
                    B0[i] = np.array(self.prop(path, BASIS[i], None, 0, interp, sx)[1].values)
                    for j in range(3):
                        (s, p), _ = self.prop(path, BASIS[i], E[j], 0, interp, sx)[1]
                        Bs[i][j], Bp[i][j] = np.array(s.values), np.array(p.values)
                big = max(float(np.max(np.abs(x))) for x in B0 + sum(Bs, []) + sum(Bp, []))
                n_known = len(self.known)
                self.static(path, where)
                self.meaning(path, where, Bs, Bp, B0, big, interp, sx)
                rs, rp = path.fresnel
                gain = max(1.0, abs(rs), abs(rp)) ** 2 if len(self.known) > n_known else 1.0
                known += self.known[n_known:]
                out.append((Bs, Bp, B0, big, gain))
            self.basecache[key] = (out, known)
        out, known = self.basecache[key]
        for kf in known:
            if kf not in self.known:
                self.known.append(kf)
        self.bases[sx] = out
        return out

    def meaning(self, path, where, Bs, Bp, B0, big, interp, sx):
        """base outputs against the documented meaning of propagate()"""
        dt = DT * STEP[sx]
        rs, rp = path.fresnel
        em = unit(path.emitted_direction)
        us, up1 = path.propagate(polarization=[0, 0, 1])
        us0 = unit(np.cross(em, [0, 0, 1]))
        if not np.any(us0):
            us0 = unit(us)                           # vertical ray: any horizontal direction; take the one the code reports
            if not (abs(us0[2]) <= 1e-12):
                raise Divergence(where + ': s direction of a vertical ray', 'horizontal', list(us0))
        elif not np.allclose(us0, us, rtol=0, atol=1e-9):
            raise Divergence(where + ': s direction', list(us0), list(np.asarray(us, dtype=float)))
        up0 = unit(np.cross(us0, em))
        exact = interp is None or self.tracer in ('uniform', 'layered')
        tol = TOL * max(big, 1e-300) * 10
        kw = {} if interp is None else {'attenuation_interpolation': interp}
        g = grid(0, sx)
        # the same samples as a function-backed signal (evaluated lazily, after propagate() has returned): same outputs
        for i in range(2):
            vals = BASIS[i]
            def table(t, vv=vals, g0=g[0], dt_=dt):
                # nearest-sample lookup (the signal is only ever evaluated on its own grid, up to rounding of t + tof - tof)
                idx = np.rint((np.asarray(t, dtype=float) - g0) / dt_).astype(int)
                ok = (idx >= 0) & (idx < len(vv))
                return np.where(ok, np.asarray(vv, dtype=float)[np.clip(idx, 0, len(vv) - 1)], 0.0)
            fsig = FunctionSignal(g, table, value_type='field')
            (fs_, fp_), _ = path.propagate(fsig, polarization=E[0] + 2 * E[1] + 3 * E[2], **kw)
            self.calls += 1
            for nm, out, B in (('s', fs_, Bs), ('p', fp_, Bp)):
                want = B[i][0] + 2 * B[i][1] + 3 * B[i][2]
                got = np.asarray(out.values, dtype=float)
                if not (float(np.max(np.abs(got - want))) <= 6 * tol):
                    k = int(np.argmax(np.abs(got - want)))
                    raise Divergence('%s: %s output for a function-backed input signal vs the sampled signal with the same samples, sample %d' % (where, nm, k),
                                     float(want[k]), float(got[k]))
        # an empty signal stays empty, is delayed once, keeps its type; the two outputs are separate objects
        emp = EmptySignal(g, value_type='field')
        outs = [('unpolarized', path.propagate(emp, **kw))]
        (es, ep), _ = path.propagate(emp, polarization=E[0] + E[2], **kw)
        outs += [('s', es), ('p', ep)]
        if es is ep:
            raise Divergence(where + ': s and p outputs for an empty signal', 'two objects', 'one shared object')
        for nm, out in outs:
            if len(out.times) != len(g) or not np.array_equal(np.asarray(out.times), g + path.tof):
                raise Divergence('%s: times of the %s output for an empty signal' % (where, nm), 'input grid + time of flight',
                                 (float(out.times[0]), float(g[0] + path.tof)))
            if np.any(np.asarray(out.values) != 0) or out.value_type != emp.value_type:
                raise Divergence('%s: %s output for an empty signal' % (where, nm), 'all zero, type field', (float(np.max(np.abs(out.values))), out.value_type))
        for i in range(2):
            if exact:
                want0 = oracle(BASIS[i], dt, path.attenuation, 1.0)
                if not (float(np.max(np.abs(B0[i] - want0))) <= tol):
                    k = int(np.argmax(np.abs(B0[i] - want0)))
                    raise Divergence(where + ': propagate(s%d) without polarization vs attenuation(|f|) applied to the zero-padded '
                                     'spectrum, sample %d' % (i + 1, k), float(want0[k]), float(B0[i][k]))
            for j in range(3):
                for nm, B, u, r in (('s', Bs, us0, rs), ('p', Bp, up0, rp)):
                    proj = float(np.dot(E[j], u))
                    if exact:
                        want = proj * oracle(BASIS[i], dt, path.attenuation, r)
                    elif abs(np.imag(r)) < 1e-15:
                        want = proj * float(np.real(r)) * B0[i]
                    else:
                        continue
                    if not (float(np.max(np.abs(B[i][j] - want))) <= tol):
                        k = int(np.argmax(np.abs(B[i][j] - want)))
                        raise Divergence('%s: %s output of propagate(s%d, e%d) vs (e . u_%s at launch) x Fresnel x attenuation, sample %d' % (
                            where, nm, i + 1, j + 1, nm, k), float(want[k]), float(B[i][j][k]))

    def static(self, path, where):
        """clauses that do not depend on the input signal"""
        att = np.asarray(path.attenuation(FREQS), dtype=float)
        if not (np.all(att > 0) and np.all(att <= 1 + 1e-12)):
            raise Divergence(where + ': attenuation factors at %s' % list(FREQS), 'in (0, 1]', list(att))
        if np.any(np.diff(att) > 1e-12):
            raise Divergence(where + ': attenuation factors along increasing |f|', 'not growing', list(att))
        neg = np.asarray(path.attenuation(-FREQS), dtype=float)
        if not np.allclose(neg, att, rtol=1e-12, atol=0):
            raise Divergence(where + ': attenuation at -f', list(att), list(neg))
        rs, rp = path.fresnel
        for nm, r in (('r_s', rs), ('r_p', rp)):
            if not abs(r) <= 1 + 1e-12:
                if self.tracer == 'layered' and np.isfinite(abs(r)) and self.transmits(path):
                    # D31: amplitude transmission coefficients into a layer of lower index exceed 1 (physical, but not what C03 states)
                    self.known.append(('D31', '%s: |%s| = %.4f' % (where, nm, abs(r))))
                    continue
                raise Divergence(where + ': |%s|' % nm, '<= 1', abs(r))
        us, up = path.propagate(polarization=[0, 0, 1])
        self.vectors(where, us, up, path)

    @staticmethod
    def transmits(path):
        """the layered path crosses at least one boundary into a layer of lower index"""
        ns = [float(sub.ice.index(0.5 * (sub.z0 + sub.z1))) for sub in getattr(path, 'paths', [])]
        return any(b < a for a, b in zip(ns, ns[1:]))

    def vectors(self, where, us, up, path):
        us, up = np.asarray(us, dtype=float), np.asarray(up, dtype=float)
        rd = np.asarray(path.received_direction, dtype=float)
        rd = rd / np.linalg.norm(rd)
        vals = {'|u_s|': (np.linalg.norm(us), 1.0), '|u_p|': (np.linalg.norm(up), 1.0), 'u_s . u_p': (float(np.dot(us, up)), 0.0),
                'u_s . received_direction': (float(np.dot(us, rd)), 0.0), 'u_p . received_direction': (float(np.dot(up, rd)), 0.0)}
        for nm, (got, want) in vals.items():
            if not (abs(got - want) <= 1e-9):
                raise Divergence('%s: polarization vectors (%s, %s): %s' % (where, list(us), list(up), nm), want, got)

    def step(self, label, st):
        interp = INTERP[st['interp']]
        a, c, mg, sx = st['a'], st['c'], st['mg'], st['sx']
        base = self.bases.get(sx) or self.get_base(st, sx)
        vals = a[0] * S1 + a[1] * S2
        pol = c[0] * E[0] + c[1] * E[1] + c[2] * E[2]
        M, R = st['M'], st['R']
        e_in = float(np.sum(vals ** 2))
        for k, path in enumerate(self.paths(st)):
            Bs, Bp, B0, big, gain = base[k]
            where = '%s geometry %d solution %d after %s (a=%s, c=%s, grid moved %d, step %g, interpolation %s)' % (
                st['tracer'], st['geo'], k, st['last']['op'], list(a), list(c), mg, STEP[sx], interp)
            sig, out = self.prop(path, vals, None, mg, interp, sx)
            self.same_grid(where + ' [no polarization]', sig, out, path)
            want = sum(R[i] * B0[i] for i in range(2))
            self.close(where + ' [no polarization]', np.asarray(out.values), want, big * max(1, sum(abs(x) for x in R)))
            if float(np.sum(np.asarray(out.values) ** 2)) > e_in * (1 + 1e-9) + 1e-300:
                raise Divergence(where + ' [no polarization]: output energy', '<= %g' % e_in, float(np.sum(np.asarray(out.values) ** 2)))
            sig, ((s, p), (us, up)) = self.prop(path, vals, pol, mg, interp, sx)
            self.same_grid(where + ' [s]', sig, s, path)
            self.same_grid(where + ' [p]', sig, p, path)
            wsum = max(1, sum(abs(x) for row in M for x in row))
            self.close(where + ' [s]', np.asarray(s.values), sum(M[i][j] * Bs[i][j] for i in range(2) for j in range(3)), big * wsum)
            self.close(where + ' [p]', np.asarray(p.values), sum(M[i][j] * Bp[i][j] for i in range(2) for j in range(3)), big * wsum)
            e_out = float(np.sum(np.asarray(s.values) ** 2) + np.sum(np.asarray(p.values) ** 2))
            if e_out > gain * float(np.dot(pol, pol)) * e_in * (1 + 1e-9) + 1e-300:
                raise Divergence(where + ': energy of s + p outputs', '<= |c|^2 * input energy = %g' % (float(np.dot(pol, pol)) * e_in), e_out)
            self.vectors(where, us, up, path)

    def same_grid(self, where, sig, out, path):
        want = np.asarray(sig.times) + path.tof
        if len(out.times) != len(want) or not np.array_equal(np.asarray(out.times), want):
            raise Divergence(where + ': output times', 'input grid + time of flight', 'different grid (first %r vs %r)' % (
                float(out.times[0]), float(want[0])))
        if len(out.values) != len(sig.values):
            raise Divergence(where + ': len(values)', len(sig.values), len(out.values))
        if out.value_type != sig.value_type:
            raise Divergence(where + ': value_type', sig.value_type, out.value_type)

    def close(self, where, got, want, scale):
        err = float(np.max(np.abs(got - want)))
        if not err <= TOL * max(scale, 1e-300):
            k = int(np.argmax(np.abs(got - want)))
            raise Divergence(where + ': sample %d vs the predicted combination of base outputs' % k, float(want[k]), float(got[k]))
