"""Driver binding spec/RayRel.tla to the gradient-index ray tracers (C01, relational core).

Endpoints are the spec's integer lattice points times 2^e; the ice is the kind's exponential profile with the
constant a divided by 2^e (and the valid range scaled).  Base solutions are computed at the initial state (e = 0);
at every state the solutions must be the predicted image: lengths and times of flight times 2^e, directions
turned / exchanged as in RaySymmetry.  Every solution is also checked on its own (see `single`).
"""
import numpy as np
import scipy.constants
from pyrex.ice_model import AntarcticIce, GreenlandIce
from pyrex.ray_tracing import SpecializedRayTracer, BasicRayTracer
from vlib.core import Divergence, Known
from drivers.symmetry_drv import rot

ICES = {'antarctic': (AntarcticIce, dict(n0=1.78, k=0.43, a=0.0132, valid_range=(-2850, 0))),
        'greenland': (GreenlandIce, dict(n0=1.775, k=0.448, a=0.0247, valid_range=(-3000, 0))),
        'custom': (AntarcticIce, dict(n0=1.6, k=0.3, a=0.02, valid_range=(-2000, 0)))}
C = scipy.constants.c


class RayRelDriver:
    def __init__(self, kind='antarctic', tracer='specialized'):
        self.kind, self.tracer = kind, tracer
        self.cls = SpecializedRayTracer if tracer == 'specialized' else BasicRayTracer
        self.tol = 1e-6 if tracer == 'specialized' else 2e-3
        self.traced = 0
        self.known = []
        self.shared = {}
        self.ctx = None

    def stats(self):
        st = {'tracer_evaluations': self.traced}
        self.traced = 0
        return st

    def cleanup(self):
        pass

    def off(self, where, what, want, got, err, tol, s0):
        """a deviation `err` beyond `tol`: D37 if it is the near-vertical cancellation of the analytic tracer (launch within
        ~9 degrees of the vertical, deviation below 2 %), a divergence otherwise"""
        if err <= tol:
            return
        c = self.ctx or {}
        # D40: the numerical tracer's first solution beyond direct_r_max (where it has to turn over) is grossly off
        if c.get('basic') and c.get('k') == 0 and np.isfinite(c.get('rmax', np.nan)) and c['rho'] > c['rmax'] - 1.0 and err <= 0.1:
            self.known.append(('D40', '%s: %s off by %.2g (rho = %.1f, direct_r_max = %.1f)' % (where, what, err, c['rho'], c['rmax'])))
            return
        # D37: the cancellation error grows like 1 / sin^2(theta): up to 2 % within ~9 degrees of the vertical, below 1e-4 up to 30 degrees
        if self.tracer == 'specialized' and ((s0 < 0.15 and err <= 2e-2) or (s0 < 0.5 and err <= 1e-4)):
            self.known.append(('D37', '%s: %s off by %.2g (launch sin(theta) = %.3g)' % (where, what, err, s0)))
            return
        raise Divergence(where + ': ' + what, want, got)

    def ice(self, e):
        cls, kw = ICES[self.kind]
        f = 2.0 ** e
        kw = dict(kw)
        kw['a'] = kw['a'] / f
        kw['valid_range'] = (kw['valid_range'][0] * f, 0)
        return cls(**kw)

    def observe(self, st, cls=None):
        e = st['e']
        f = 2.0 ** e
        src = np.array(st['src'], dtype=float) * f
        dst = np.array(st['dst'], dtype=float) * f
        ice = self.ice(e)
        self.traced += 1
        tcls = cls or self.cls
        tr = tcls(src, dst, ice, dz=f) if tcls is BasicRayTracer else tcls(src, dst, ice)     # the integration step scales with the geometry
        ex = bool(tr.exists)
        sols = list(tr.solutions)
        self.rmax = float(getattr(tr, 'direct_r_max', np.nan)) if ex else np.nan
        if cls is None:
            self.reused(st, src, dst, ice, sols)
        where = '%s %s tracer, 2^%d x %s -> %s' % (self.kind, self.tracer if cls is None else cls.__name__, e, list(st['src']), list(st['dst']))
        if ex != (len(sols) > 0):
            raise Divergence(where + ': exists', len(sols) > 0, ex)
        if len(sols) not in (0, 2):
            raise Divergence(where + ': number of solutions', '0 or 2', len(sols))
        out = []
        for k, s in enumerate(sols):
            o = {'L': float(s.path_length), 'tof': float(s.tof), 'e': np.asarray(s.emitted_direction, dtype=float),
                 'r': np.asarray(s.received_direction, dtype=float)}
            o['s0'] = float(np.hypot(o['e'][0], o['e'][1]))
            o['beta'] = float(ice.index(src[2])) * o['s0']
            o['rho'] = float(np.hypot(dst[0] - src[0], dst[1] - src[1]))
            o['rmax'] = self.rmax
            o['k'] = k
            o['basic'] = tcls is BasicRayTracer
            self.ctx = o
            self.single(where + ' solution %d' % k, k, o, src, dst, ice)
            out.append(o)
        if len(out) == 2 and (src[2] != dst[2] or np.any(src[:2] != dst[:2])):
            self.ctx = out[0]
            self.off(where, 'launch elevation: first solution below the second', float(out[1]['e'][2]), float(out[0]['e'][2]),
                     max(0.0, float(out[0]['e'][2] - out[1]['e'][2])), 1e-9, out[0]['s0'])
            self.off(where, 'path lengths: first solution not longer than the second', out[1]['L'], out[0]['L'],
                     max(0.0, out[0]['L'] / out[1]['L'] - 1), 1e-9, out[0]['s0'])
        return out

    def reused(self, st, src, dst, ice, sols):
        """one long-lived tracer per scale, endpoints re-assigned: nothing may survive from the previous endpoints"""
        key = st['e']
        tr = self.shared.get(key)
        if tr is None:
            tr = self.shared[key] = (self.cls(src.copy(), dst.copy(), ice, dz=2.0 ** st['e']) if self.cls is BasicRayTracer
                                     else self.cls(src.copy(), dst.copy(), ice))
        else:
            tr.from_point = src.copy()
            tr.to_point = dst.copy()
        got = list(tr.solutions)
        where = '%s %s tracer object re-used with new endpoints 2^%d x %s -> %s' % (self.kind, self.tracer, st['e'], list(st['src']), list(st['dst']))
        if len(got) != len(sols) or bool(tr.exists) != (len(sols) > 0):
            raise Divergence(where + ': number of solutions', len(sols), len(got))
        for k, (a, b) in enumerate(zip(sols, got)):
            for nm in ('path_length', 'tof'):
                x, y = float(getattr(a, nm)), float(getattr(b, nm))
                if not (abs(x - y) <= 1e-9 * max(abs(x), 1e-30)):
                    raise Divergence('%s: %s of solution %d' % (where, nm, k), x, y)
            for nm in ('emitted_direction', 'received_direction'):
                x, y = np.asarray(getattr(a, nm), dtype=float), np.asarray(getattr(b, nm), dtype=float)
                if not np.allclose(x, y, rtol=0, atol=1e-9):
                    raise Divergence('%s: %s of solution %d' % (where, nm, k), list(x), list(y))

    def single(self, where, k, o, src, dst, ice):
        """clauses about one solution"""
        tol = self.tol
        em, rc = o['e'], o['r']
        for nm, v in (('emitted', em), ('received', rc)):
            if not (abs(np.linalg.norm(v) - 1) <= 1e-9):
                raise Divergence(where + ': |%s direction|' % nm, 1.0, float(np.linalg.norm(v)))
        # n sin(theta) is the same at launch and at reception
        n0, n1 = float(ice.index(src[2])), float(ice.index(dst[2]))
        s0, s1 = float(np.hypot(em[0], em[1])), float(np.hypot(rc[0], rc[1]))
        self.off(where, 'n sin(theta) at launch vs at reception', n0 * s0, n1 * s1, abs(n0 * s0 - n1 * s1), 10 * tol, s0)
        # directions lie in the vertical plane through the endpoints and point from source to receiver
        h = dst[:2] - src[:2]
        rho = float(np.linalg.norm(h))
        if rho > 0:
            u = h / rho
            for nm, v, s in (('emitted', em, s0), ('received', rc, s1)):
                if not (abs(v[0] * u[1] - v[1] * u[0]) <= 1e-9) or (s > 1e-9 and v[0] * u[0] + v[1] * u[1] < 0):
                    raise Divergence(where + ': horizontal part of the %s direction' % nm, 'along %s' % list(u), list(v[:2]))
        # the second solution leaves upwards and arrives downwards (turns over or reflects).  The first one never turns over
        # *where a monotone ray exists*: between points of (nearly) equal depth no monotone ray exists in a medium whose
        # index grows with depth, and the code's first solution is then the low arc -- so what is checked for it is what
        # holds of every true ray: it never goes down first and up afterwards, and if it does not turn it heads for the
        # receiver's depth; that it stays below the second solution is checked in `observe`
        if src[2] != dst[2] or rho > 0:
            if k == 1 and not (em[2] > 0 and rc[2] < 0):
                raise Divergence(where + ': second solution', 'leaves upwards and arrives downwards', (float(em[2]), float(rc[2])))
            if k == 0 and em[2] < -1e-12 and rc[2] > 1e-12:
                raise Divergence(where + ': first solution', 'never down first and up afterwards', (float(em[2]), float(rc[2])))
            if k == 0 and em[2] * rc[2] > 0 and em[2] * (dst[2] - src[2]) < 0:
                raise Divergence(where + ': first solution (not turning)', 'heads for the receiver depth', float(em[2]))
        # straight-line and index bounds
        d = float(np.linalg.norm(dst - src))
        self.off(where, 'path length vs straight distance', '>= %r' % d, o['L'], max(0.0, (d - o['L']) / max(d, 1e-9)), tol, s0)
        if o['L'] > 0:
            nmean = o['tof'] * C / o['L']
            lo, hi = float(ice.index(0.0)), float(ice.index(min(src[2], dst[2])))
            self.off(where, 'c tof / path length (mean index)', 'between n(surface) = %r and n(deepest endpoint) = %r' % (lo, hi), nmean,
                     max(0.0, lo - nmean, nmean - hi) / hi, 10 * tol, s0)

    def reset(self, st):
        self.known = []
        self.base = self.observe(st)
        self.prev = self.base
        # the two implementations agree
        if self.tracer == 'specialized' and self.kind in ('antarctic', 'custom'):
            other = self.observe(st, cls=BasicRayTracer)
            if not other and len(self.base) == 2 and self.base[0]['e'][2] > 0 > self.base[0]['r'][2]:
                return          # observation (DESIGN 12.5): the numerical tracer reports nothing where even the lower ray turns over
            self.match('analytic vs numerical tracer at %s -> %s' % (list(st['src']), list(st['dst'])), self.base, other, 1.0, st, 2e-3, ident=True)

    def hamilton(self, st, prev, cur):
        """d(tof)/d(rho) = n sin(theta) / c between neighbouring receiver positions"""
        if len(prev) != len(cur) or not cur:
            return
        for k, (p, c) in enumerate(zip(prev, cur)):
            drho = c['rho'] - p['rho']
            if drho == 0:
                continue
            want = 0.5 * (p['beta'] + c['beta']) * drho / C
            got = c['tof'] - p['tof']
            err = abs(got - want) / (abs(drho) * 1.5 / C)
            if err <= 5e-3:
                continue
            rel = abs(got - want) / max(p['tof'], c['tof'])          # the same deviation as a fraction of the time of flight
            where = '%s %s solution %d, receiver moved from rho = %.2f to %.2f (2^%d x %s -> %s)' % (
                self.kind, self.tracer, k, p['rho'], c['rho'], st['e'], list(st['src']), list(st['dst']))
            rm = c['rmax']
            near = np.isfinite(rm) and (min(p['rho'], c['rho']) - 3.0 * 2.0 ** st['e'] <= rm <= max(p['rho'], c['rho']) + 1.0 * 2.0 ** st['e'])
            if self.tracer == 'specialized' and near and err <= 0.1:
                self.known.append(('D39', where + ': d(tof) = %.4g, ray parameter predicts %.4g' % (got, want)))
                continue
            s0 = min(p['s0'], c['s0'])
            if self.tracer == 'specialized' and ((s0 < 0.15 and rel <= 2e-2) or (s0 < 0.5 and rel <= 1e-4)):
                self.known.append(('D37', where))
                continue
            raise Divergence(where + ': change of the time of flight vs mean ray parameter x change of distance / c', want, got)

    def step(self, label, st):
        if st['last']['op'] == 'Stretch':
            prev = self.prev
            cur = self.observe(st)
            if self.tracer == 'specialized':
                self.hamilton(st, prev, cur)
            self.prev = cur
            self.base = cur if st['e'] == 0 else self.observe(dict(st, e=0))
            return
        cur = self.observe(st)
        self.prev = cur
        where = '%s %s after %s (e=%d, swapped=%s, turns=%d) at %s -> %s' % (self.kind, self.tracer, st['last']['op'], st['e'], st['swapped'],
                                                                          st['turns'], list(st['src']), list(st['dst']))
        self.match(where, self.base, cur, 2.0 ** st['e'], st, self.tol)

    def match(self, where, base, cur, f, st, tol, ident=False):
        if len(cur) != len(base):
            raise Divergence(where + ': number of solutions', len(base), len(cur))
        for k, (b, c) in enumerate(zip(base, cur)):
            self.ctx = c
            e_, r_ = b['e'], b['r']
            if not ident:
                e_, r_ = rot(e_, st['turns']), rot(r_, st['turns'])
                if st['swapped']:
                    e_, r_ = -r_, -e_
            s0 = min(b['s0'], c['s0'])
            self.off(where, 'path length of solution %d' % k, f * b['L'], c['L'], abs(c['L'] - f * b['L']) / max(f * b['L'], 1.0), tol, s0)
            self.off(where, 'time of flight of solution %d' % k, f * b['tof'], c['tof'], abs(c['tof'] - f * b['tof']) / max(f * b['tof'], 1e-12),
                     tol, s0)
            if list(st['src']) == list(st['dst']):
                continue
            dtol = max(tol * 100, 1e-6)
            self.off(where, 'emitted direction of solution %d' % k, list(e_), list(c['e']), float(np.max(np.abs(c['e'] - e_))), dtol, s0)
            self.off(where, 'received direction of solution %d' % k, list(r_), list(c['r']), float(np.max(np.abs(c['r'] - r_))), dtol, s0)
