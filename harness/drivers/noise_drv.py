"""Driver binding spec/NoiseRel.tla to FullThermalNoise / FFTThermalNoise (C17, relational core).

One tick is half a sample of the construction grid (sample step 2^-30 s, Nyquist 2^29 Hz).  For every basis the
oracle F is the sum of the cosines *published* by the real object that first carried it (freqs, amps, phases, rms;
normalisation sqrt(2 / number of frequencies)); after every step every sample of every object is compared with
F(tick - delay) -- for the FFT implementation only at samples on the construction lattice (in between it interpolates).
"""
import numpy as np
import scipy.constants
from pyrex.signals import FullThermalNoise, FFTThermalNoise
from vlib.core import Divergence

DT = 2.0 ** -30
TICK = DT / 2
FNY = 2.0 ** 29
W0 = 10
BANDS = {1: (1e8, 3e8), 2: (0.0, 2e8), 3: (3e8, 2.0 ** 30), 4: (6e8, 7e8), 5: (1.0e8, 1.01e8), 6: (FNY * 0.999, FNY * 1.5)}
RMS = 3.0
TEMP, RES = 300.0, 50.0
TOL = 1e-9


def _scalar_only(f):
    if np.ndim(f) != 0:
        raise TypeError('one frequency at a time')
    return 0.5 + f / 1e9


AMPS = {'const': 1.0, 'func': (lambda f: 1.0 + f / 1e9), 'scalarfunc': _scalar_only, 'rayleigh': None}


def ticks(o):
    return o['w0'] + o['st'] * np.arange(o['wn'])


class NoiseDriver:
    def __init__(self):
        self.samples = 0
        self.known = []

    def stats(self):
        st = {'noise_samples_compared': self.samples}
        self.samples = 0
        return st

    def cleanup(self):
        self.real = {}
        self.basis = {}

    def build(self, st, long=False):
        cls = FullThermalNoise if st['impl'] == 'full' else FFTThermalNoise
        times = (W0 + 2 * np.arange(st['n'] * 2 + 3 if long else st['n'])) * TICK
        kw = dict(f_amplitude=AMPS[st['amp']], uniqueness_factor=(2.5 if st['uniq'] == 25 else st['uniq']))
        if st['rmsmode'] == 'rms':
            kw['rms_voltage'] = RMS
        else:
            kw['temperature'], kw['resistance'] = TEMP, RES
        return cls(times, BANDS[st['band']], **kw)

    def publish(self, b, nz, st):
        """record the published basis of a new random basis and check the clauses about it"""
        fmin, fmax = BANDS[st['band']]
        f, a, p = np.array(nz.freqs, dtype=float), np.array(nz.amps, dtype=float), np.array(nz.phases, dtype=float)
        where = '%s noise, band %s, amplitudes %s, uniqueness %d, %d samples' % (st['impl'], BANDS[st['band']], st['amp'], st['uniq'], st['n'])
        if not (len(f) == len(a) == len(p)):
            raise Divergence(where + ': lengths of freqs / amps / phases', 'equal', (len(f), len(a), len(p)))
        if len(f) and not (np.all(f >= fmin) and np.all(f <= fmax)):
            raise Divergence(where + ': published frequencies', 'inside the band', [float(x) for x in f if x < fmin or x > fmax][:4])
        if st['impl'] == 'full' and len(f) == 0:
            raise Divergence(where + ': number of frequencies', '>= 1', 0)
        want_rms = RMS if st['rmsmode'] == 'rms' else float(np.sqrt(scipy.constants.k * TEMP * RES * (fmax - fmin)))
        if not (abs(nz.rms - want_rms) <= 1e-12 * want_rms):
            raise Divergence(where + ': rms', want_rms, nz.rms)
        if st['amp'] == 'const' and len(f) and not np.all((a == 1.0) | (f == 0)):
            raise Divergence(where + ': amplitudes', 'the constant given (0 at DC)', list(a[:6]))
        if st['amp'] in ('func', 'scalarfunc') and len(f):
            wa = np.array([AMPS['func'](x) if st['amp'] == 'func' else _scalar_only(x) for x in f]) * (f != 0)
            if not np.allclose(a, wa, rtol=1e-12, atol=0):
                raise Divergence(where + ': amplitudes', list(wa[:6]), list(a[:6]))
        start = W0 * TICK if st['impl'] == 'fft' else 0.0      # the FFT implementation counts time from the first sample of its construction grid
        self.basis[b] = dict(f=f, a=a, p=p, rms=float(nz.rms), start=start, impl=st['impl'])
        # unit amplitudes give the requested rms: exact over one period of the FFT implementation
        if st['impl'] == 'fft' and st['amp'] == 'const' and len(f) and np.all(a == 1.0) and not np.any(np.isclose(f, FNY, rtol=1e-9)):
            per = (2 if st['uniq'] == 25 else st['uniq']) * st['n']
            v = np.asarray(nz.with_times((W0 + 2 * np.arange(per)) * TICK).values, dtype=float)
            got = float(np.sqrt(np.mean(v ** 2)))
            if not (abs(got - want_rms) <= 1e-9 * want_rms):
                raise Divergence(where + ': rms of the waveform over one period (unit amplitudes)', want_rms, got)

    def F(self, b, tk):
        B = self.basis[b]
        t = np.asarray(tk, dtype=float) * TICK
        nf = len(B['f'])
        if nf == 0:
            return np.zeros(len(t)), 0.0
        if B['impl'] == 'full':
            tot = sum(a * np.cos(2 * np.pi * f * t + p) for f, a, p in zip(B['f'], B['a'], B['p']))
        else:
            tot = sum(a * np.cos(2 * np.pi * f * (t - B['start']) - p) for f, a, p in zip(B['f'], B['a'], B['p']))
        norm = B['rms'] * np.sqrt(2.0 / nf)
        return norm * tot, norm * float(np.sum(np.abs(B['a'])))

    def reset(self, st):
        np.random.seed(4242 + 7 * st['n'] + st['uniq'])
        self.known = []
        self.real, self.basis = {}, {}
        self.st0 = st
        nz = self.build(st)
        self.publish(1, nz, st)
        self.real[1] = nz
        self.compare(st)

    def step(self, label, st):
        last = st['last']
        op = last['op']
        R = self.real
        if op == 'WithTimes':
            new = R[last['a']].with_times((last['w0'] + last['st'] * np.arange(last['wn'])) * TICK)
            R[last['slot']] = new
        elif op == 'Shift':
            R[last['a']].shift(last['d'] * TICK)
        elif op == 'Copy':
            R[last['slot']] = R[last['a']].copy()
        elif op == 'Rebuild':
            # for the full implementation every other rebuilt object is constructed on a longer grid (another number of
            # frequencies of its own) before it is given the stored basis and the construction window
            long = st['impl'] == 'full' and last['slot'] % 2 == 0
            new = self.build(st, long=long)
            B = self.basis[st['objs'][last['a'] - 1]['basis']]
            new.freqs, new.amps, new.phases = B['f'].copy(), B['a'].copy(), B['p'].copy()
            if long:
                new.times = (W0 + 2 * np.arange(st['n'])) * TICK
            R[last['slot']] = new
        elif op == 'Fresh':
            new = self.build(st)
            self.publish(st['nbasis'], new, st)
            R[last['slot']] = new
        else:
            raise Divergence('op', 'known op', op)
        self.compare(st)

    def compare(self, st):
        shown = {}
        for i, o in enumerate(st['objs'], start=1):
            r = self.real[i]
            tk = ticks(o)
            where = 'object %d (%s noise, band %d, amplitudes %s, uniqueness %d, n %d; basis %d, window %s, shifted %d ticks) after %s' % (
                i, st['impl'], st['band'], st['amp'], st['uniq'], st['n'], o['basis'], (o['w0'], o['wn'], o['st']), o['delay'], st['last']['op'])
            t = np.asarray(r.times, dtype=float)
            if len(t) != len(tk) or not np.allclose(t, tk * TICK, rtol=0, atol=1e-9 * TICK):
                raise Divergence(where + ': times', 'the window', 'different')
            v = np.asarray(r.values, dtype=float)
            if v.shape != (len(tk),) or not np.all(np.isfinite(v)):
                raise Divergence(where + ': values', '%d finite samples' % len(tk), v.shape)
            want, scale = self.F(o['basis'], tk - o['delay'])
            mask = np.ones(len(tk), dtype=bool) if st['impl'] == 'full' else ((tk - o['delay'] - W0) % 2 == 0)
            self.samples += int(np.sum(mask))
            err = np.abs(v - want) * mask
            if not np.all(err <= TOL * max(scale, 1e-300)):
                k = int(np.argmax(err))
                raise Divergence(where + ': sample %d (tick %d) vs the sum of the published cosines' % (k, tk[k]), float(want[k]), float(v[k]))
            shown[i] = (o['basis'], want, scale)
        # independent objects differ
        for i, (bi, wi, si) in shown.items():
            for j, (bj, wj, sj) in shown.items():
                if i < j and bi != bj and si > 0 and sj > 0:
                    Fi, _ = self.F(bi, np.arange(W0, W0 + 40, 2))
                    Fj, _ = self.F(bj, np.arange(W0, W0 + 40, 2))
                    if np.allclose(Fi, Fj, rtol=0, atol=1e-9 * si):
                        raise Divergence('objects %d and %d (independent bases %d, %d)' % (i, j, bi, bj), 'different waveforms', 'identical')
