"""Driver binding spec/RaySymmetry.tla to the shipped ray tracers (C02).

At the initial state the tracer is evaluated at the base endpoints; at every later state it is evaluated
at the transformed endpoints and the solution set must relate to the base set as the spec's bookkeeping
(swapped, turns) predicts.  Count clauses: exists <=> solutions non-empty; gradient tracers report 0 or 2.
"""
import numpy as np
from pyrex.ice_model import AntarcticIce, ArasimIce, GreenlandIce, UniformIce
from pyrex.ray_tracing import SpecializedRayTracer, BasicRayTracer, UniformRayTracer
from pyrex.custom.layered_ice import LayeredIce, LayeredRayTracer
from vlib.core import Divergence, Known

FREQS = np.array([1e8, 3e8, 6e8])


class Uniform2(UniformRayTracer):
    max_reflections = 2


def make(kind):
    if kind == 'specialized-antarctic':
        return SpecializedRayTracer, AntarcticIce(), 1e-6, True
    if kind == 'specialized-arasim':
        return SpecializedRayTracer, ArasimIce(), 1e-6, True
    if kind == 'specialized-greenland':
        return SpecializedRayTracer, GreenlandIce(), 1e-6, True
    if kind == 'basic-antarctic':
        return BasicRayTracer, AntarcticIce(), 1e-4, True
    if kind == 'uniform':
        return Uniform2, UniformIce(1.5, valid_range=(-2000, 0), index_above=1.0, index_below=1.3), 1e-9, False
    if kind == 'layered':
        ice = LayeredIce([UniformIce(1.35, valid_range=(-120, 0)), UniformIce(1.6, valid_range=(-900, -120)),
                          UniformIce(1.78, valid_range=(-2000, -900))])
        return LayeredRayTracer, ice, 1e-6, False
    raise KeyError(kind)


def rot(v, n):
    x, y, z = v
    for _ in range(n % 4):
        x, y = -y, x
    return np.array([x, y, z])


class SymmetryDriver:
    def __init__(self, kind='specialized-antarctic'):
        self.kind = kind
        self.cls, self.ice, self.tol, self.gradient = make(kind)
        self.traced = 0
        self.known = []

    def stats(self):
        st = {'tracer_evaluations': self.traced}
        self.traced = 0
        return st

    def cleanup(self):
        pass

    def observe(self, src, dst, reuse=False):
        self.traced += 1
        if reuse and getattr(self, 'tracer', None) is not None:
            # the same tracer object, endpoints re-assigned (lazy state must not survive)
            tr = self.tracer
            tr.from_point = np.array(src, dtype=float)
            tr.to_point = np.array(dst, dtype=float)
        else:
            tr = self.cls(np.array(src, dtype=float), np.array(dst, dtype=float), self.ice)
            if reuse:
                self.tracer = tr
        try:
            ex = bool(tr.exists)
            sols = list(tr.solutions)
        except ValueError as e:
            # D13: GreenlandIce with both endpoints so deep that n(z) == n0 in double precision
            if self.kind == 'specialized-greenland' and src[2] < -1400 and dst[2] < -1400:
                raise Known('D13', 'GreenlandIce endpoints %s %s: %r' % (list(src), list(dst), e))
            raise
        if ex != (len(sols) > 0):
            raise Divergence('exists at %s -> %s' % (list(src), list(dst)), len(sols) > 0, ex)
        if self.gradient and len(sols) not in (0, 2):
            raise Divergence('number of solutions of a gradient-index tracer at %s -> %s' % (list(src), list(dst)), '0 or 2', len(sols))
        out = []
        for s in sols:
            out.append({'L': float(s.path_length), 'tof': float(s.tof),
                        'att': np.asarray(s.attenuation(FREQS), dtype=float),
                        'e': np.asarray(s.emitted_direction, dtype=float), 'r': np.asarray(s.received_direction, dtype=float)})
        return out

    def reset(self, st):
        self.tracer = None
        self.base = self.observe(st['src'], st['dst'])
        self.observe(st['src'], st['dst'], reuse=True)

    def step(self, label, st):
        self.compare(st, self.observe(st['src'], st['dst']), 'fresh tracer')
        try:
            reused = self.observe(st['src'], st['dst'], reuse=True)
        except Exception as ex:
            from vlib.core import Known as _K
            if isinstance(ex, _K):
                raise
            raise
        self.compare(st, reused, 're-used tracer object')

    def compare(self, st, cur, how):
        where = '%s [%s] after %s (swapped=%s, turns=%d) at %s -> %s' % (self.kind, how, st['last']['op'], st['swapped'], st['turns'],
                                                                    list(st['src']), list(st['dst']))
        if len(cur) != len(self.base):
            raise Divergence(where + ': number of solutions', len(self.base), len(cur))
        # predicted image of every base solution
        want = []
        for b in self.base:
            e, r = rot(b['e'], st['turns']), rot(b['r'], st['turns'])
            if st['swapped']:
                e, r = -r, -e
            want.append({'L': b['L'], 'tof': b['tof'], 'att': b['att'], 'e': e, 'r': r})
        used = set()
        for w in want:
            best, bi = None, None
            for i, c in enumerate(cur):
                if i in used:
                    continue
                err = abs(c['L'] - w['L']) / max(w['L'], 1e-9) + abs(c['tof'] - w['tof']) / max(w['tof'], 1e-18)
                err += float(np.max(np.abs(c['e'] - w['e']))) + float(np.max(np.abs(c['r'] - w['r'])))
                if best is None or err < best:
                    best, bi = err, i
            c = cur[bi]
            used.add(bi)
            tol = self.tol
            if not (abs(c['L'] - w['L']) <= tol * max(w['L'], 1.0)):
                raise Divergence(where + ': path length', w['L'], c['L'])
            if not (abs(c['tof'] - w['tof']) <= tol * max(w['tof'], 1e-12)):
                raise Divergence(where + ': time of flight', w['tof'], c['tof'])
            # uniform / layered paths integrate the attenuation with a one-sided Riemann sum: not symmetric below ~1e-3
            att_tol = 5e-3 if not self.gradient else max(tol * 100, 1e-6)
            if not np.allclose(c['att'], w['att'], rtol=att_tol, atol=1e-12):
                raise Divergence(where + ': attenuation', list(w['att']), list(c['att']))
            dtol = max(tol * 100, 1e-6)
            if list(st['src']) == list(st['dst']):
                continue      # identical endpoints: directions are a convention, not geometry
            if not np.allclose(c['e'], w['e'], rtol=0, atol=dtol):
                raise Divergence(where + ': emitted direction', list(w['e']), list(c['e']))
            if not np.allclose(c['r'], w['r'], rtol=0, atol=dtol):
                raise Divergence(where + ': received direction', list(w['r']), list(c['r']))
