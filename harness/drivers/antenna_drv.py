"""Driver binding spec/AntennaHits.tla to pyrex.Antenna / pyrex.AntennaSystem (C09).

Real time = tick / 2, every grid has step 1.0.  Antennas trigger on max(values) >= Thr.
The system's front end is gain 2 + one sample delay (exact on the lead-in extended grid).
For noisy antennas the spec predicts the signal part only: the noise part of every
observation (observed - predicted) is recorded as (generation, tick) -> value and must be
one function over the whole behaviour; a new generation must give different noise.
"""
import numpy as np
import pyrex
from vlib.core import Divergence

TOL = 1e-8
THR = 24.0


class ThrAntenna(pyrex.Antenna):
    def trigger(self, signal):
        return bool(np.max(signal.values) >= THR - 1e-6)


class DelaySystem(pyrex.AntennaSystem):
    lead_in_time = 0

    def front_end(self, signal):
        v = np.concatenate(([0.0], np.asarray(signal.values)[:-1])) * 2.0
        return pyrex.Signal(signal.times, v, value_type=signal.value_type)


class DelaySystemLead(DelaySystem):
    lead_in_time = 3.0


def grid(t0, n, st=2):
    return t0 / 2.0 + np.arange(n) * (st / 2.0)


class AntennaDriver:
    def __init__(self, kind='antenna', noisy=False, lead=False):
        self.kind, self.noisy, self.lead = kind, noisy, lead
        self.known = []
        self.obs = 0
        self.mc_seen = {}

    def stats(self):
        st = {'waveform_observations': self.obs, 'hit_but_not_mc_truth': self.mc_seen.get((True, False), 0)}
        self.obs = 0
        self.mc_seen = {}
        return st

    def cleanup(self):
        self.obj = None

    def reset(self, st):
        np.random.seed(12345)
        kw = dict(position=(0, 0, -100), noisy=self.noisy)
        if self.noisy:
            # for a system the front end doubles the noise: rms 8 puts the noise alone at 1.5 sigma of the threshold after the
            # front end (it triggers some windows by itself) and at 3 sigma before it (hardly ever) -- is_hit_mc_truth can tell
            kw.update(freq_range=(0.05, 0.4), noise_rms=(8.0 if self.kind == 'system' else 16.0), unique_noise_waveforms=3)
        ant = ThrAntenna(**kw)
        if self.kind == 'system':
            self.obj = (DelaySystemLead if self.lead else DelaySystem)(ant)
        else:
            self.obj = ant
        self.ant = ant
        self.noise = {}        # (gen, tick) -> noise value
        self.known = []

    # ---- comparison of a real waveform with the predicted signal part --------------
    def check_wave(self, where, real, t0, pred, gen, frozen=None, stale_ok=False, st=2):
        """pred: spec values (what the property demands); frozen: what the as-is cache model holds"""
        self.obs += 1
        n = len(pred)
        et = grid(t0, n, st)
        if len(real.times) != n or not np.allclose(real.times, et, rtol=0, atol=1e-9):
            raise Divergence(where + ' times', list(et), list(map(float, real.times)))
        v = np.asarray(real.values, dtype=float)
        if len(v) != n:
            raise Divergence(where + ' len(values)', n, len(v))
        if not self.noisy:
            if np.allclose(v, pred, rtol=0, atol=TOL):
                return
            if stale_ok and frozen is not None and np.allclose(v, frozen, rtol=0, atol=TOL):
                self.known.append(('D9', '%s: reported waveform lacks a signal received after the first query' % where))
                return
            raise Divergence(where + ' values', list(map(float, pred)), list(map(float, v)))
        # noisy: residual must be a function of (generation, absolute time)
        base = np.asarray(frozen if (stale_ok and frozen is not None) else pred, dtype=float)
        res = v - base
        if self.kind == 'system':
            return      # front end mixes noise samples: only counts / grids are checked for noisy systems
        for k in range(n):
            key = (gen, t0 + st * k)
            if key in self.noise:
                if not (abs(self.noise[key] - res[k]) <= 1e-7):
                    if stale_ok:
                        self.known.append(('D9', where))
                        return
                    raise Divergence(where + ' noise at tick %d (generation %d)' % (t0 + st * k, gen),
                                     self.noise[key], float(res[k]))
            else:
                self.noise[key] = float(res[k])
        # a different generation must not repeat the same noise
        for g2 in {g for g, _ in self.noise} - {gen}:
            same = [abs(self.noise[(g2, t0 + st * k)] - res[k]) < 1e-12 for k in range(n) if (g2, t0 + st * k) in self.noise]
            if len(same) >= 2 and all(same):
                raise Divergence(where + ' noise after reset', 'different from generation %d' % g2, 'identical')

    def step(self, label, st):
        last = st['last']
        op = last['op']
        o = self.obj
        stale = _stale(st, self.kind)
        if op == 'Receive':
            s = last['s']
            sig = pyrex.Signal(grid(s['t0'], len(s['v'])), [float(x) for x in s['v']], value_type='voltage')
            o.receive(sig)
            if len(self.ant.signals) != len(st['sigs']):
                raise Divergence('len(signals)', len(st['sigs']), len(self.ant.signals))
            if self.kind == 'system':
                for k, ps in enumerate(o.signals):
                    exp = _proc(st['sigs'][k])
                    if not np.allclose(ps.values, exp, rtol=0, atol=TOL):
                        raise Divergence('system.signals[%d]' % k, exp, list(map(float, ps.values)))
        elif op == 'AllWaveforms':
            self.compare_all(o.all_waveforms, st, last['res'], stale)
        elif op in ('Waveforms', 'IsHit'):
            if op == 'IsHit':
                hit = o.is_hit
            waves = o.waveforms
            allw = o.all_waveforms
            self.compare_all(allw, st, last['waves'], stale)
            if self.noisy:
                want = [w for w in allw if self.ant.trigger(w)]
            else:
                want = [w for w, t in zip(allw, last['res']) if t]
            if stale and not self.noisy and [id(w) for w in waves] != [id(w) for w in want]:
                # trigger decisions were taken on stale waveforms: accept the decisions a repaired cache would take
                fixed = [w for w in allw if self.ant.trigger(w)]
                if [id(w) for w in waves] == [id(w) for w in fixed]:
                    want = fixed
            if [id(w) for w in waves] != [id(w) for w in want]:
                raise Divergence('waveforms (triggered subset)', [i for i, w in enumerate(allw) if any(w is x for x in want)],
                                 [i for i, w in enumerate(allw) if any(w is x for x in waves)])
            if op == 'IsHit' and hit != (len(want) > 0):
                raise Divergence('is_hit', len(want) > 0, hit)
            if op == 'IsHit':
                # Monte Carlo truth: hit by a waveform over whose window the noise alone -- as this object sees noise, i.e. through
                # the front end for a system -- would not have triggered; without noise it is is_hit
                mc = bool(o.is_hit_mc_truth)
                want_mc = bool(hit) if not self.noisy else any(not o.trigger(o.make_noise(w.times)) for w in o.waveforms)
                self.mc_seen[(bool(hit), want_mc)] = self.mc_seen.get((bool(hit), want_mc), 0) + 1
                if mc != want_mc:
                    raise Divergence('is_hit_mc_truth (is_hit = %s)' % hit, want_mc, mc)
        elif op == 'ReceiveFail':
            s_ = last['s']
            good = pyrex.Signal(grid(s_['t0'], len(s_['v'])), [float(x) for x in s_['v']], value_type='voltage')
            bad = pyrex.Signal(grid(s_['t0'], len(s_['v'])), [1.0] * len(s_['v']), value_type=None)
            n_before = len(self.ant.signals)
            try:
                o.receive([good, bad], polarization=[(0, 0, 1), (1, 0, 0)])
            except ValueError:
                pass
            else:
                raise Divergence('receive([voltage, undefined])', 'ValueError', 'accepted')
            if len(self.ant.signals) != n_before or len(o.signals) != n_before:
                raise Divergence('signals stored by a refused receive()', n_before, (len(self.ant.signals), len(o.signals)))
        elif op in ('FullWaveform', 'IsHitDuring'):
            t = grid(last['t0'], last['n'], last['st'])
            if op == 'IsHitDuring':
                got = o.is_hit_during(t)
                if not self.noisy and bool(got) != bool(last['trig']):
                    raise Divergence('is_hit_during(%s)' % list(t), last['trig'], got)
            else:
                w = o.full_waveform(t)
                if self.noisy and self.kind == 'system' and len(st['sigs']) == 0:
                    # without signals the waveform of a system over a window is its noise over that window -- through the same
                    # front end, with the same lead-in
                    nz = o.make_noise(t)
                    if not np.allclose(np.asarray(w.values, dtype=float), np.asarray(nz.values, dtype=float), rtol=0, atol=1e-9):
                        raise Divergence('system without signals: full_waveform(%d,%d,step %d) vs make_noise over the same window' % (
                            last['t0'], last['n'], last['st']), list(map(float, nz.values)), list(map(float, w.values)))
                self.check_wave('full_waveform(%d,%d,step %d)' % (last['t0'], last['n'], last['st']), w, last['t0'],
                                [float(x) for x in last['res']], last['gen'], st=last['st'])
        elif op == 'MakeNoise':
            w = o.make_noise(grid(last['t0'], last['n'], last['st']))
            self.check_wave('make_noise(%d,%d,step %d)' % (last['t0'], last['n'], last['st']), w, last['t0'], [0.0] * last['n'], last['gen'],
                            st=last['st'])
        elif op == 'Clear':
            o.clear(reset_noise=bool(last['reset']))
            if len(self.ant.signals) or len(o.signals) or len(o.all_waveforms) or len(o.waveforms) or o.is_hit:
                raise Divergence('state after clear', 'no signals, no waveforms, not hit',
                                 (len(o.signals), len(o.all_waveforms), len(o.waveforms), o.is_hit))
        else:
            raise Divergence('op', 'known op', op)

    def compare_all(self, allw, st, frozen, stale):
        sigs = st['sigs']
        if len(allw) != len(sigs):
            raise Divergence('len(all_waveforms)', len(sigs), len(allw))
        for k, (w, s) in enumerate(zip(allw, sigs)):
            pred = _wave(sigs, s['t0'], len(s['v']), self.kind)
            self.check_wave('all_waveforms[%d]' % k, w, s['t0'], pred, st['gen'],
                            frozen=[float(x) for x in frozen[k]], stale_ok=stale)


def _interp(s, t):
    n = len(s['v'])
    off = t - s['t0']
    if off < 0 or off > 2 * (n - 1):
        return 0.0
    if off % 2 == 0:
        return float(s['v'][off // 2])
    return (s['v'][off // 2] + s['v'][off // 2 + 1]) / 2.0


def _obs(sigs, t, kind):
    if kind == 'system':
        return 2.0 * sum(_interp(s, t - 2) for s in sigs)
    return sum(_interp(s, t) for s in sigs)


def _wave(sigs, t0, n, kind):
    return [_obs(sigs, t0 + 2 * k, kind) for k in range(n)]


def _proc(s):
    return _wave([s], s['t0'], len(s['v']), 'system')


def _stale(st, kind):
    """signature of D9: some cached waveform differs from the superposition of the current signals"""
    sigs = st['sigs']
    for k, sh in enumerate(st['shown']):
        if [float(x) for x in sh] != _wave(sigs, sigs[k]['t0'], len(sigs[k]['v']), kind):
            return True
    return False
