"""Driver binding spec/H5Store.tla to pyrex.io (HDF5Writer / HDF5Reader / EventIterator)
and pyrex.generation.FileGenerator  (C11, C12).

The spec's rows are tags <<k, j>>.  The driver gives the k-th add() concrete data that
carries the tag (particle energies, ray path lengths, waveform samples, noise bases,
trigger flags) and, after every step, copies the flushed file and reads the copy back
through the public reader API on every access path of the small model, comparing with
what the spec says was accepted (`acc`).  Only data addressed by the index table is
compared -- orphan rows, counters and the layout of the index are representation.
"""
import os
import shutil
import numpy as np
import pyrex
from pyrex.io import File
from pyrex.generation import FileGenerator
from vlib.core import Divergence, Known, VERIF

KIND_FLAG = {'particles': 'write_particles', 'triggers': 'write_triggers',
             'antenna_triggers': 'write_antenna_triggers', 'rays': 'write_rays',
             'noise': 'write_noise', 'waveforms': 'write_waveforms'}
N_ANT = 2
PIDS = ['nu_e', 'nu_mu_bar', 'nu_tau', 'nu_e_bar']


def thrown(k):
    return 1 + (k % 3)


class TagAntenna(pyrex.Antenna):
    """antenna whose trigger is a function of the tag carried in the first sample"""

    def trigger(self, signal):
        return int(round(signal.values[0])) % 2 == 1


_MISSING = object()


class LazyNoiseAntenna(TagAntenna):
    """like a real noisy antenna, its noise master appears only when a waveform is first computed (the noise itself is zero,
    so waveforms stay exact); the basis the file must then hold is the stub's"""
    stub = None

    def make_noise(self, times):
        if self._noise_master is None:
            self._noise_master = NoiseStub(*self.stub)
        return pyrex.Signal(times, np.zeros(len(times)), value_type=pyrex.Signal.Type.voltage)


class NoiseStub:
    def __init__(self, k, a):
        self.freqs = np.array([float(k), float(a), 7.0])
        self.amps = np.array([0.5 * k, 1.0])
        self.phases = np.array([0.25 * a])


class PathStub:
    def __init__(self, tag):
        self.tag = tag

    @property
    def _metadata(self):
        t = float(self.tag)
        return {'n0': 1.5, 'dz': 1.0, 'emitted_x': 0.0, 'emitted_y': 0.6, 'emitted_z': 0.8,
                'received_x': 0.0, 'received_y': 0.6, 'received_z': -0.8,
                'launch_angle': 0.5, 'receiving_angle': 0.25, 'path_length': t, 'tof': t * 1e-9,
                'kind_name': 'path%d' % self.tag}


class BadEvent:
    """stands for an event with a particle attribute that is neither string nor scalar"""

    def __init__(self, n):
        self.n = n

    def __len__(self):
        return self.n

    def __iter__(self):
        return iter(range(self.n))

    @property
    def _metadata(self):
        return [{'particle_id': 12, 'energy': [[1.0, 2.0]]} for _ in range(self.n)]


def wtag(k, j, a):
    return 100 * k + 10 * j + a


def n_waves(p, a, k=0):
    """ragged: which antenna has one waveform less alternates with the add number"""
    return p['nw'] if a == (k % N_ANT) else max(p['nw'] - 1, 0)


def n_rays(p, a, k=0):
    return p['nr'] if a == ((k + 1) % N_ANT) else max(p['nr'] - 1, 0)


def foo_list(k, n):
    return [(k + j) % 2 == 0 for j in range(n)]


def make_event(k, p):
    parts = []
    for j in range(p['np']):
        pid = PIDS[(k + j) % len(PIDS)]
        part = pyrex.Particle(particle_id=pid, vertex=(float(k), float(j), -100.0 - k),
                              direction=(0.0, 0.6, -0.8) if (k + j) % 2 else (0.6, 0.0, 0.8),
                              energy=1e6 + 1000 * k + j,
                              interaction_type='cc' if (k + j) % 2 else 'nc')
        part.interaction.inelasticity = 0.25
        part.interaction.em_frac = 0.5 if (k + j) % 2 else 0.0
        part.interaction.had_frac = 0.25
        part.survival_weight = 0.0 if (k + j) % 3 == 0 else 0.5              # some weights are exactly zero
        part.interaction_weight = 0.0 if (k + 2 * j) % 4 == 1 else 0.125 * (j + 1)
        parts.append(part)
    if k % 2 == 1 and len(parts) >= 2:
        # a tree: one root, the other particles its children (an event has more particles than roots)
        ev = pyrex.Event(parts[0])
        ev.add_children(parts[0], parts[1:])
        return ev
    return pyrex.Event(parts)


def particle_obs(part):
    return (part.id.value, tuple(float(x) for x in part.vertex), tuple(round(float(x), 12) for x in part.direction),
            float(part.energy), part.interaction.kind.value, float(part.interaction.inelasticity),
            float(part.interaction.em_frac), float(part.interaction.had_frac),
            float(part.survival_weight), float(part.interaction_weight))


def gate(c, kind, p):
    return kind in c['write'] and (kind not in c['trigOnly'] or p['trig'])


def extra(p):
    return p['form'] in ('dictx', 'dictl', 'dictshort')


def expected_event(c, k, p, lazy=False, noise=None):
    """what reading back the event of the k-th add must give (None = nothing recorded)"""
    e = {}
    e['particles'] = [particle_obs(x) for x in make_event(k, p)] if gate(c, 'particles', p) else None
    e['triggered'] = bool(p['trig']) if gate(c, 'triggers', p) else None
    if gate(c, 'triggers', p) and (gate(c, 'antenna_triggers', p) or extra(p)):
        rows = []
        for j in range(p['nw']):
            names = set()
            if gate(c, 'antenna_triggers', p):
                for a in range(N_ANT):
                    if j < n_waves(p, a, k) and wtag(k, j, a) % 2 == 1:
                        names.add('antenna_%d' % a)
            if p['form'] == 'dictx' and k % 2 == 0:
                names.add('foo')
            if p['form'] == 'dictl' and foo_list(k, p['nw'])[j]:
                names.add('foo')
            rows.append(names)
        e['components'] = rows
    else:
        e['components'] = None
    if gate(c, 'rays', p):
        e['rays'] = [[float(wtag(k, j, a)) if j < n_rays(p, a, k) else 0.0 for a in range(N_ANT)] for j in range(p['nr'])]
    else:
        e['rays'] = None
    # noise bases: what the antennas' noise consisted of when the event was added (recorded by the driver from the public
    # attributes of the antennas' noise right after the add; [] for an antenna that had no noise yet)
    e['noise'] = (noise if noise is not None else 'unobservable') if gate(c, 'noise', p) else None
    if gate(c, 'waveforms', p):
        e['waveforms'] = [[float(wtag(k, j, a)) if j < n_waves(p, a, k) else None for a in range(N_ANT)]
                          for j in range(p['nw'])]
    else:
        e['waveforms'] = None
    return e


def _nothing(call):
    """run an accessor; 'X was not saved in this file' means nothing recorded anywhere in the file"""
    try:
        return call()
    except ValueError as ex:
        if 'not saved in this file' in str(ex):
            return None
        raise


def observe_event(ev):
    o = {}
    info = _nothing(lambda: ev.get_particle_info())
    if info is None or len(info) == 0:
        o['particles'] = None
    else:
        o['particles'] = [(int(d['particle_id']), (float(d['vertex_x']), float(d['vertex_y']), float(d['vertex_z'])),
                           (round(float(d['direction_x']), 12), round(float(d['direction_y']), 12), round(float(d['direction_z']), 12)),
                           float(d['energy']), int(d['interaction_kind']), float(d['interaction_inelasticity']),
                           float(d['interaction_em_frac']), float(d['interaction_had_frac']),
                           float(d['survival_weight']), float(d['interaction_weight'])) for d in info]
    t = _nothing(lambda: ev.triggered)
    o['triggered'] = None if t is None else bool(t)
    # component triggers, by name, per waveform row and for the whole event
    try:
        whole = _nothing(lambda: ev.get_triggered_components())
        if whole is None:
            o['components'] = None
            o['components_any'] = None
        else:
            rows = []
            for j in range(4):
                rows.append(set(ev.get_triggered_components(ray=j)))
            o['components'] = rows
            o['components_any'] = set(whole)
    except Exception as ex:
        o['components'] = 'EXC %r' % ex
        o['components_any'] = 'EXC %r' % ex
    r = _nothing(lambda: ev.get_rays_info('path_length'))
    if r is None or len(r) == 0:
        o['rays'] = None
    else:
        o['rays'] = [[float(x) for x in row] for row in np.asarray(r)]
        pol = np.asarray(ev.get_rays_info('polarization'))
        o['rays_pol_shape'] = tuple(pol.shape)
    nb = _nothing(lambda: ev.noise_bases)
    if nb is None or len(nb) == 0:
        o['noise'] = None
    else:
        o['noise'] = [[float(x) for part in nb[a] for x in np.atleast_1d(part)] for a in range(len(nb))]      # freqs + amps + phases
    wf = _nothing(lambda: ev.get_waveforms())
    if wf is None or len(wf) == 0:
        o['waveforms'] = None
    else:
        rows = []
        for j in range(wf.shape[0]):
            rows.append([float(wf[j, a, 1][0]) if len(wf[j, a, 1]) else None for a in range(wf.shape[1])])
        o['waveforms'] = rows
        # narrowed accessors agree with the full table
        for a in range(wf.shape[1]):
            col = ev.get_waveforms(antenna_id=a)
            got = [float(col[j, 1][0]) if len(col[j, 1]) else None for j in range(col.shape[0])]
            if got != [rows[j][a] for j in range(len(rows))]:
                raise Divergence('get_waveforms(antenna_id=%d) vs full table' % a, [rows[j][a] for j in range(len(rows))], got)
        for j, name in ((0, 'direct'), (1, 'reflected'), (2, 2)):
            rowj = ev.get_waveforms(waveform_type=name)
            want = rows[j] if j < len(rows) else []
            got = [float(rowj[a, 1][0]) if len(rowj[a, 1]) else None for a in range(len(rowj))] if len(rowj) else []
            if got != want:
                raise Divergence('get_waveforms(waveform_type=%r) vs full table' % (name,), want, got)
    # attribute accessors agree with the dictionaries
    if o['particles'] is not None:
        en = [float(x) for x in ev.get_particle_info('energy')]
        if en != [p[3] for p in o['particles']]:
            raise Divergence("get_particle_info('energy') vs dictionaries", [p[3] for p in o['particles']], en)
        vtx = np.asarray(ev.get_particle_info('vertex'), dtype=float)
        if [tuple(map(float, v)) for v in vtx] != [p[1] for p in o['particles']]:
            raise Divergence("get_particle_info('vertex') vs dictionaries", [p[1] for p in o['particles']], vtx.tolist())
        kinds = ev.get_particle_info('interaction_info')['interaction_kind']
        if [int(x) for x in kinds] != [p[4] for p in o['particles']]:
            raise Divergence("get_particle_info('interaction_info') vs dictionaries", [p[4] for p in o['particles']], [int(x) for x in kinds])
        names = list(ev.get_particle_info('particle_name'))
        if bool(ev.is_neutrino) != ('neutrino' in names[0]) or bool(ev.is_nubar) != (o['particles'][0][0] < 0):
            raise Divergence('is_neutrino / is_nubar of the first particle', ('neutrino' in names[0], o['particles'][0][0] < 0),
                             (ev.is_neutrino, ev.is_nubar))
    if o['rays'] is not None:
        dicts = ev.get_rays_info()
        got = [[float(d.get('path_length', 0.0)) for d in row] for row in dicts]
        if got != o['rays']:
            raise Divergence("get_rays_info() dictionaries vs get_rays_info('path_length')", o['rays'], got)
        em = np.asarray(ev.get_rays_info('emitted_direction'), dtype=float)
        for j, row in enumerate(o['rays']):
            for a, val in enumerate(row):
                want = [0.0, 0.6, 0.8] if val != 0.0 else [0.0, 0.0, 0.0]
                if not np.allclose(em[j, a], want):
                    raise Divergence("get_rays_info('emitted_direction')[%d, %d]" % (j, a), want, em[j, a].tolist())
    return o


def compare_event(where, exp, obs):
    for key in ('particles', 'triggered', 'rays', 'noise', 'waveforms'):
        e, o = exp[key], obs[key]
        if key in ('rays', 'waveforms') and e == []:
            e = None                      # zero rows recorded reads back as nothing
        if key == 'noise' and e == 'unobservable':
            continue
        if e != o:
            raise Divergence('%s %s' % (where, key), e, o)
    e, o = exp['components'], obs['components']
    if isinstance(o, str):
        raise Divergence('%s components' % where, e, o)
    if e is None:
        e = []
    if o is None:
        o, oany = [], set()
    else:
        oany = obs['components_any']
    for j in range(4):
        ej = e[j] if j < len(e) else set()
        oj = o[j] if j < len(o) else set()
        if ej != oj:
            raise Divergence('%s components of waveform row %d' % (where, j), sorted(ej), sorted(oj))
    eany = set().union(*e) if e else set()
    if eany != oany:
        raise Divergence('%s components (whole event)' % where, sorted(eany), sorted(oany))


class H5Driver:
    def __init__(self, level='full', tag='C11', generator=False, seed=0):
        import random
        self.level = level
        self.generator = generator
        self.rng = random.Random(seed)
        self.paths_checked = 0
        self.gen_runs = 0
        self.dir = os.path.join(VERIF, '.work', tag, 'files_%d' % os.getpid())
        self.writer = None
        self.nsteps = 0
        self.lazy = False
        self.nbeh = 0

    def stats(self):
        st = {'reader_access_paths_checked': self.paths_checked, 'file_generator_runs': self.gen_runs,
              'file_readbacks': self.nsteps}
        self.paths_checked = self.gen_runs = self.nsteps = 0
        return st

    # ------------------------------------------------------------ life cycle
    def cleanup(self):
        try:
            if self.writer is not None and self.writer.is_open:
                self.writer.close()
        except Exception:
            pass
        self.writer = None
        shutil.rmtree(self.dir, ignore_errors=True)

    def _options(self):
        kw = {flag: (kind in self.c['write']) for kind, flag in KIND_FLAG.items()}
        kw['require_trigger'] = sorted(self.c['trigOnly'])
        return kw

    def reset(self, st):
        self.cleanup()
        os.makedirs(self.dir, exist_ok=True)
        self.c = st['c']
        self.path = os.path.join(self.dir, 'f.h5')
        self.nbeh += 1
        self.lazy = self.nbeh % 2 == 0          # every other behaviour with antennas whose noise master is created lazily
        # real thermal noise of amplitude zero: waveforms stay exact, the noise basis (frequencies, amplitudes, phases) is real.
        # In the non-lazy behaviours the noise exists before the add (as after a trigger evaluation); in the lazy ones it is
        # created by whatever first computes a waveform -- possibly the writer itself (D41)
        self.det = [TagAntenna(position=(10.0 * a, 0.0, -100.0 - a), freq_range=(1e7, 4e8), noise_rms=0.0, noisy=True)
                    for a in range(N_ANT)]
        self.noise_exp = {}
        self.writer = File(self.path, 'w', **self._options())
        self.writer.open()
        self.writer.set_detector(self.det)
        self.verify(st)

    # ------------------------------------------------------------------ step
    def step(self, label, st):
        last = st['last']
        op = last['op']
        if op == 'Add':
            self.do_add(last)
        elif op == 'Close':
            self.writer.close()
        elif op == 'Reopen':
            self.writer = File(self.path, 'a', **self._options())
            self.writer.open()
            if last['det']:
                self.writer.set_detector(self.det)
        else:
            raise Divergence('op', 'known op', op)
        self.verify(st)

    def do_add(self, last):
        k, p = last['k'], last['p']
        event = BadEvent(p['np']) if p['pbad'] else make_event(k, p)
        for a, ant in enumerate(self.det):
            ant.clear(reset_noise=True)
            for j in range(n_waves(p, a, k)):
                t = np.arange(4) * 1e-9 + j * 1e-6
                ant.signals.append(pyrex.Signal(t, [float(wtag(k, j, a)), 1.0, -1.0, 0.5]))
        probe = np.arange(4) * 1e-9
        if not self.lazy:
            for ant in self.det:
                ant.make_noise(probe)                 # the noise exists before the add
        form = p['form']
        trig = bool(p['trig'])
        triggered = {'bool': trig, 'dict': {'global': trig}, 'dictx': {'global': trig, 'foo': k % 2 == 0},
                     'dictl': {'global': trig, 'foo': foo_list(k, p['nw'])},
                     'dictshort': {'global': trig, 'foo': foo_list(k, p['nw'])[:-1]},
                     'badtype': 1, 'noglobal': {'foo': True}, 'none': None}[form]
        if p['rays'] == 'none':
            paths, pols = None, None
        else:
            paths = [[PathStub(wtag(k, j, a)) for j in range(n_rays(p, a, k))] for a in range(N_ANT)]
            pols = [[(0.0, 0.8, 0.6) for j in range(n_rays(p, a, k))] for a in range(N_ANT)]
            if p['rays'] == 'badshape':
                pols = pols[:-1]
        raised = None
        try:
            self.writer.add(event, triggered=triggered, ray_paths=paths, polarizations=pols,
                            events_thrown=thrown(k))
        except Exception as ex:      # any error type counts as a rejection
            raised = ex
        # what the noise of every antenna consisted of at the add.  The noise object is reachable only through the attribute the
        # writer itself reads; if it is not there (renamed by a refactoring) the noise bases are not compared at all
        rows = []
        for a, ant in enumerate(self.det):
            inner = ant
            while hasattr(inner, 'antenna'):
                inner = inner.antenna
            nz = getattr(inner, '_noise_master', _MISSING)
            if nz is _MISSING:
                rows = None
                break
            rows.append([] if nz is None else [float(x) for part in (nz.freqs, nz.amps, nz.phases) for x in np.atleast_1d(part)])
        self.noise_exp[k] = rows
        if rows is not None and self.lazy:
            # the lazily created noise must exist exactly for the antennas whose waveforms the writer had to compute
            c = self.c
            computed = gate(c, 'waveforms', p) or (gate(c, 'triggers', p) and (gate(c, 'antenna_triggers', p) or extra(p)))
            if raised is None:
                for a in range(N_ANT):
                    if bool(rows[a]) != bool(computed and n_waves(p, a, k) > 0):
                        raise Divergence('add #%d: noise of antenna %d exists after the add' % (k, a), bool(computed and n_waves(p, a, k) > 0), bool(rows[a]))
        if last['res'] == 'either':
            return
        if last['res'] == 'raises' and raised is None:
            raise Divergence('add #%d' % k, 'rejected with an error', 'accepted')
        if last['res'] == 'ok' and raised is not None:
            raise Divergence('add #%d' % k, 'accepted', 'raised %r' % raised)

    def reader_paths(self, src, exp):
        return _reader_paths(self, src, exp)

    # ---------------------------------------------------------------- verify
    def verify(self, st):
        """read the file back (through a flushed copy while the writer is open)"""
        self.nsteps += 1
        acc = st['acc']
        exp = [expected_event(self.c, a['k'], a['p'], self.lazy, self.noise_exp.get(a['k'])) for a in acc]
        is_open = self.writer is not None and self.writer.is_open
        if is_open:
            self.writer['/'].file.flush()
            src = os.path.join(self.dir, 'copy.h5')
            shutil.copyfile(self.path, src)
        else:
            src = self.path
        self.paths_checked += check_file(src, exp, self.level, self.rng)
        self.reader_paths(src, exp)
        # the file's throw counter is the sum over all adds that reached the particle stage, over all sessions
        want_thrown = int(st['F']['thrown'])
        if want_thrown > 0:
            f = open_reader(src)
            try:
                got_thrown = int(f.total_events_thrown)
            finally:
                f.close()
            if got_thrown != want_thrown:
                raise Divergence('total_events_thrown of the file after %d accepted adds in %d session(s)' % (len(acc), int(st['w']['n'])),
                                 want_thrown, got_thrown)
        if self.generator and not is_open:
            self.gen_runs += check_generator(src, exp, 'full' if self.level == 'full' else 'sample')


def _reader_paths(self, src, exp):
    """access patterns beyond one pass: two iterators of one reader alive in different chunks; one reader object kept over the
    whole history and re-opened after every step; the reader-level waveform accessor at the end of an event's rows"""
    n = len(exp)
    if n == 0 or all(e['particles'] is None for e in exp):
        return              # no particle table in the file: outside the property's domain (as in check_file)
    if n >= 2:
        f = open_reader(src, slice_range=1)
        try:
            a, b = iter(f), iter(f)
            ea0 = next(a)
            eb0 = next(b)
            ea1 = next(a)                       # `a` moves on to the next chunk while `b` still stands on event 0
            compare_event('two iterators of one reader (slice_range=1): event 0 through the second iterator', exp[0], observe_event(eb0))
            compare_event('two iterators of one reader (slice_range=1): event 1 through the first iterator', exp[1], observe_event(ea1))
            eb1 = next(b)
            compare_event('two iterators of one reader (slice_range=1): event 1 through the second iterator', exp[1], observe_event(eb1))
        finally:
            f.close()
    # the same reader object over the whole history (a file that grows between its sessions)
    if getattr(self, 'long_reader', None) is None or self.long_reader_path != src:
        self.long_reader = File(src, 'r')
        self.long_reader_path = src
    lr = self.long_reader
    lr.open()
    try:
        if len(lr) != n:
            raise Divergence('len() of a reader object re-opened after the file changed', n, len(lr))
        for i in sorted({-1, -n, 0, n - 1}):
            compare_event('reader object kept across sessions, file[%d] of %d events' % (i, n), exp[i], observe_event(lr[i]))
    finally:
        lr.close()
    # reader-level accessor: waveform rows of event i, type t; t = number of waveform rows of the event is past its end
    f = open_reader(src)
    try:
        for i in range(n):
            wf = exp[i]['waveforms']
            if not wf:
                continue
            nrows = len(wf)
            try:
                got = f.get_waveforms(event_id=i, waveform_type=nrows)
            except Exception:
                continue
            got = np.asarray(got)
            if got.size and np.any(np.nan_to_num(got.astype(float)) != 0):
                raise Divergence('reader.get_waveforms(event_id=%d, waveform_type=%d) of an event with %d waveform rows' % (i, nrows, nrows),
                                 'an error or nothing', 'data of shape %s' % (got.shape,))
    finally:
        f.close()


def open_reader(path, **kw):
    f = File(path, 'r', **kw)
    f.open()
    return f


def access_paths(n):
    """every access path of the model for a file of n events"""
    iters = [('iter', sr) for sr in range(1, n + 2)]
    idxs = [('index', sr, i) for sr in sorted({1, n + 1}) for i in range(-n, n)]
    slices = []
    bounds = [None] + list(range(-n, n + 1))
    for sr in sorted({1, 2, n + 1}):
        for a in bounds:
            for b in bounds:
                a1 = 0 if a is None else (a + n if a < 0 else a)
                b1 = n if b is None else (b + n if b < 0 else b)
                if 0 <= a1 < b1 <= n:
                    for step in range(1, n + 1):
                        slices.append(('slice', sr, a, b, step))
    return iters, idxs, slices


def check_file(path, exp, level, rng=None):
    n = len(exp)
    f = open_reader(path)
    try:
        if len(f) != n:
            raise Divergence('len(file)', n, len(f))
        if n == 0:
            return 0
        # the index table addresses rows inside the datasets
        idx = f['event_indices']
        keys = [k if isinstance(k, str) else k.decode() for k in idx.attrs['keys']]
        tab = idx[...]
        for col, name in enumerate(keys):
            rows = f[name + '/float'].shape[0] if (name + '/float') in f else f[name].shape[0]
            for e in range(tab.shape[0]):
                s, ln = int(tab[e, col, 0]), int(tab[e, col, 1])
                if ln > 0 and (s < 0 or s + ln > rows):
                    raise Divergence('index entry of event %d for %s' % (e, name), 'inside 0..%d' % rows, (s, ln))
    finally:
        f.close()
    if all(e['particles'] is None for e in exp):
        return 0        # no particle table in the file: outside the property's domain (options that record particles)
    # HDF5Reader.get_waveforms(event_id=...) addresses the rows of that event
    f = open_reader(path)
    try:
        for i, e in enumerate(exp):
            try:
                got = f.get_waveforms(event_id=i)
            except ValueError as ex:
                if 'not saved in this file' in str(ex):
                    break
                raise
            want = e['waveforms'] or []
            rows = [[float(got[j, a, 1][0]) if len(got[j, a, 1]) else None for a in range(got.shape[1])] for j in range(got.shape[0])]
            if rows != want:
                raise Divergence('HDF5Reader.get_waveforms(event_id=%d)' % i, want, rows)
    finally:
        f.close()
    iters, idxs, slices = access_paths(n)
    if level == 'full':
        todo = iters + idxs + slices
    elif level == 'sample':
        others = idxs + slices
        rng.shuffle(others)
        todo = iters + others[:24]
    else:
        others = idxs + slices
        rng.shuffle(others)
        todo = [('iter', n + 1), ('iter', 1), ('index', 1, -1), ('index', 1, 0)] + others[:3]
    by_sr = {}
    for t in todo:
        by_sr.setdefault(t[1], []).append(t)
    for sr, items in sorted(by_sr.items()):
        f = open_reader(path, slice_range=sr)
        try:
            for it in items:
                if it[0] == 'iter':
                    got = [observe_event(ev) for ev in f]
                    if len(got) != n:
                        raise Divergence('iteration slice_range=%d: number of events' % sr, n, len(got))
                    for i in range(n):
                        compare_event('iteration slice_range=%d event %d' % (sr, i), exp[i], got[i])
                elif it[0] == 'index':
                    i = it[2]
                    compare_event('f[%d] slice_range=%d' % (i, sr), exp[i % n], observe_event(f[i]))
                else:
                    _, _, a, b, step = it
                    a1 = 0 if a is None else (a + n if a < 0 else a)
                    b1 = n if b is None else (b + n if b < 0 else b)
                    want = list(range(a1, b1, step))
                    got = [observe_event(ev) for ev in f[a:b:step]]
                    if len(got) != len(want):
                        raise Divergence('f[%s:%s:%d] slice_range=%d: number of events' % (a, b, step, sr), len(want), len(got))
                    for e, o in zip(want, got):
                        compare_event('f[%s:%s:%d] slice_range=%d event %d' % (a, b, step, sr, e), exp[e], o)
        finally:
            f.close()
    return len(todo)


def check_generator(path, exp, level='full'):
    """FileGenerator replays the stored particles in order across files and chunk sizes, then stops"""
    n = len(exp)
    if n == 0 or any(e['particles'] is None for e in exp):
        return 0
    f = open_reader(path)
    total = int(f.total_events_thrown)
    f.close()
    runs = 0
    for files in ([path], [path, path]):
        for sr in (range(1, n + 2) if level == 'full' else sorted({1, 2, n + 1})):
            runs += 1
            gen = FileGenerator(list(files), slice_range=sr)
            prev = gen.count
            for rep in range(len(files)):
                for i in range(n):
                    ev = gen.create_event()
                    got = [particle_obs(x) for x in ev]
                    if got != exp[i]['particles']:
                        raise Divergence('FileGenerator(%d file(s), slice_range=%d) event %d' % (len(files), sr, rep * n + i),
                                         exp[i]['particles'], got)
                    if gen.count < prev:
                        raise Divergence('FileGenerator.count', 'non-decreasing', (prev, gen.count))
                    prev = gen.count
                if gen.count != total * (rep + 1):
                    raise Divergence('FileGenerator.count after file %d (slice_range=%d)' % (rep, sr), total * (rep + 1), gen.count)
            try:
                gen.create_event()
            except StopIteration:
                pass
            except Exception as ex:
                raise Divergence('FileGenerator after the last event', 'StopIteration', repr(ex))
            else:
                raise Divergence('FileGenerator after the last event', 'StopIteration', 'another event')
    return runs
