"""Driver binding spec/IceDispatch.tla to the shipped ice models (C16, discrete core)."""
import numpy as np
from pyrex.ice_model import AntarcticIce, ArasimIce, GreenlandIce, UniformIce
from pyrex.custom.layered_ice import LayeredIce
from vlib.core import Divergence

ABOVE, BELOW = -1.0, -2.0          # sentinel outside indices: the region is observable without recomputing n(z)
FREQS = np.array([1e8, 3e9])


def models(rg):
    lo, hi = float(rg[0]), float(rg[1])
    kw = dict(valid_range=(lo, hi), index_above=ABOVE, index_below=BELOW)
    return [('AntarcticIce', AntarcticIce(**kw)), ('ArasimIce', ArasimIce(**kw)), ('GreenlandIce', GreenlandIce(**kw)),
            ('UniformIce', UniformIce(1.5, **kw))]


class IceDriver:
    def __init__(self):
        self.evals = 0

    def stats(self):
        st = {'ice_model_evaluations': self.evals}
        self.evals = 0
        return st

    def cleanup(self):
        pass

    def reset(self, st):
        pass

    def step(self, label, st):
        c, last = st['cs'], st['last']
        if c['kind'] == 'range':
            z = float(c['z'])
            for name, ice in models(c['rg']):
                self.evals += 1
                n = ice.index(z)
                got = 'above' if n == ABOVE else ('below' if n == BELOW else 'inside')
                if got != last['region']:
                    raise Divergence('%s%s.index(%g): region' % (name, tuple(c['rg']), z), last['region'], got)
                # array argument agrees with the scalar, entry by entry, also among neighbours
                arr = np.array([z - 1.0, z, z + 1.0, z])
                na = ice.index(arr)
                want = np.array([ice.index(float(x)) for x in arr])
                if np.shape(na) != (4,) or not np.array_equal(np.asarray(na, dtype=float), want):
                    raise Divergence('%s%s.index(array) vs scalar calls at %s' % (name, tuple(c['rg']), list(arr)), list(want), list(np.asarray(na, dtype=float)))
                # outside indices left undeclared (None) default to the profile's own value at the corresponding edge of the range
                keep = (ice.index_above, ice.index_below)
                try:
                    ice.index_above, ice.index_below = None, None
                    lo_, hi_ = float(c['rg'][0]), float(c['rg'][1])
                    for nm_, edge, zz in (('index_above', hi_, hi_ + 5.0), ('index_below', lo_, lo_ - 5.0)):
                        want_n = float(ice.index(edge))
                        if not (abs(float(getattr(ice, nm_)) - want_n) <= 1e-12 and abs(float(ice.index(zz)) - want_n) <= 1e-12):
                            raise Divergence('%s%s with %s = None: the attribute and index(%g)' % (name, tuple(c['rg']), nm_, zz), want_n,
                                             (float(getattr(ice, nm_)), float(ice.index(zz))))
                finally:
                    ice.index_above, ice.index_below = keep
                if ice.contains((0.0, 0.0, z)) != (last['region'] == 'inside'):
                    raise Divergence('%s%s.contains((0,0,%g))' % (name, tuple(c['rg']), z), last['region'] == 'inside', ice.contains((0, 0, z)))
        elif c['kind'] == 'stack':
            st_ = c['st']
            layers = [UniformIce(1.3 + 0.1 * k, valid_range=(float(lo), float(hi))) for k, (lo, hi) in enumerate(st_)]
            ice = LayeredIce(layers, index_above=ABOVE, index_below=BELOW)
            z = float(c['z'])
            self.evals += 1
            want = last['layer']
            n = ice.index(z)
            if want in ('above', 'below'):
                exp_n = ABOVE if want == 'above' else BELOW
                if n != exp_n:
                    raise Divergence('LayeredIce%s.index(%g)' % ([tuple(x) for x in st_], z), exp_n, n)
                try:
                    ice.layer_at_depth(z)
                except ValueError:
                    pass
                else:
                    raise Divergence('LayeredIce%s.layer_at_depth(%g)' % ([tuple(x) for x in st_], z), 'ValueError (no layer)', 'a layer')
                if ice.contains((0, 0, z)):
                    raise Divergence('LayeredIce.contains outside the stack', False, True)
            else:
                exp_n = 1.3 + 0.1 * (want - 1)
                if not (abs(n - exp_n) <= 1e-12):
                    raise Divergence('LayeredIce%s.index(%g): layer' % ([tuple(x) for x in st_], z), exp_n, n)
                if ice.layer_at_depth(z) is not layers[want - 1]:
                    raise Divergence('LayeredIce.layer_at_depth(%g)' % z, 'layer %d' % want, 'another layer')
                if not ice.contains((0, 0, z)):
                    raise Divergence('LayeredIce.contains inside the stack', True, False)
            arr = np.array([z + 1.0, z, z - 1.0, z, z + 50.0, z, z - 50.0])       # order matters for a stateful lookup
            na = ice.index(arr)
            wa = np.array([ice.index(float(x)) for x in arr])
            if not np.array_equal(np.asarray(na, dtype=float), wa):
                raise Divergence('LayeredIce.index(array) vs scalar calls', list(wa), list(np.asarray(na, dtype=float)))
        elif c['kind'] == 'inverse':
            self.inverse(c, last)
        else:
            zarr, farr = bool(c['sh'][0]), bool(c['sh'][1])
            lo, hi = float(c['rg'][0]), float(c['rg'][1])
            zs = np.array([hi - 1.0, (lo + hi) / 2, lo + 1.0])
            for name, ice in models(c['rg']):
                self.evals += 1
                zarg = zs if zarr else float(zs[1])
                farg = FREQS if farr else float(FREQS[0])
                out = ice.attenuation_length(zarg, farg)
                shape = tuple(last['shape'])
                if np.shape(out) != shape:
                    raise Divergence('%s.attenuation_length shape (z array=%s, f array=%s)' % (name, zarr, farr), shape, np.shape(out))
                out = np.asarray(out, dtype=float)
                if not np.all(np.isfinite(out)) or not np.all(out > 0):
                    raise Divergence('%s.attenuation_length positive and finite' % name, 'positive finite', out.tolist())
                for i, z in enumerate(zs if zarr else [zs[1]]):
                    for j, f in enumerate(FREQS if farr else [FREQS[0]]):
                        s = float(ice.attenuation_length(float(z), float(f)))
                        e = out[i, j] if (zarr and farr) else (out[i] if zarr else (out[j] if farr else float(out)))
                        if not (abs(e - s) <= 1e-9 * abs(s)):
                            raise Divergence('%s.attenuation_length entry (%d,%d) vs scalar evaluation' % (name, i, j), s, float(e))

    def inverse(self, c, last):
        lo, hi = float(c['rg'][0]), float(c['rg'][1])
        for name, ice, below in [(n_, i_, b_) for b_ in (None, 1.33, 1.9) for n_, i_ in models(c['rg'])]:
            if name == 'UniformIce':
                continue
            # outside indices must not influence the inverse: defaults, a small and a large explicit index below
            ice.index_above, ice.index_below = 1.0, below
            n_top, n_bot = float(ice.index(hi)), float(ice.index(lo))      # on the bounds the profile value, not the outside index
            gap = n_bot - n_top
            n = {'below_top': n_top - 0.01, 'at_top': n_top, 'middle': n_top + gap / 2, 'at_bottom': n_bot,
                 'above_bottom': n_bot + min(1e-4, (ice.n0 - n_bot) / 2), 'beyond_asymptote': ice.n0 + 0.01}[c['pos']]
            if c['pos'] == 'above_bottom' and not n > n_bot:
                continue          # index at the lower bound indistinguishable from the asymptote
            self.evals += 1
            z = float(ice.depth_with_index(n))
            za = np.asarray(ice.depth_with_index(np.array([n, n_top + gap / 3, n])), dtype=float)
            where = '%s%s(index_below=%s).depth_with_index(%r) [%s]' % (name, tuple(c['rg']), below, n, c['pos'])
            if last['inv'] == 'clamp_top' and z != hi:
                raise Divergence(where, hi, z)
            if last['inv'] == 'clamp_bottom' and z != lo:
                raise Divergence(where, lo, z)
            if last['inv'] == 'inverted':
                if not (lo - 1e-6 <= z <= hi + 1e-6) or abs(float(ice.index(min(max(z, lo), hi))) - n) > 1e-9:
                    raise Divergence(where + ': index(depth_with_index(n))', n, (z, float(ice.index(min(max(z, lo), hi)))))
            if not (abs(za[0] - z) <= 1e-9 * max(1.0, abs(z)) and abs(za[2] - z) <= 1e-9 * max(1.0, abs(z))):     # NaN-safe
                raise Divergence(where + ': array vs scalar', z, za.tolist())
