"""Driver binding spec/EventTree.tla to pyrex.particle.Event and the shower-fraction decision of the
interaction models (C14, discrete core)."""
import numpy as np
import pyrex
from pyrex.particle import Event, Particle, GQRSInteraction, CTWInteraction
from vlib.core import Divergence

E0 = 1e9
FLAV = {'e': 'nu_e', 'mu': 'nu_mu_bar', 'tau': 'nu_tau'}


def scripted(base, y10, cands, sec):
    class Scripted(base):
        include_secondaries = sec
        tries = 0

        def choose_inelasticity(self):
            return y10 / 10.0

        def _choose_secondary_fractions(self, lepton_energy, energy_index):
            pid = self.particle.id
            if pid in (self.particle.Type.electron_neutrino, self.particle.Type.electron_antineutrino):
                return super()._choose_secondary_fractions(lepton_energy, energy_index)
            c = cands[type(self).tries]
            type(self).tries += 1
            return c[0] * E0 / 10.0, c[1] * E0 / 10.0
    return Scripted


class EventDriver:
    def __init__(self):
        self.queries = 0

    def stats(self):
        st = {'tree_queries_compared': self.queries}
        self.queries = 0
        return st

    def cleanup(self):
        self.ev = None

    def reset(self, st):
        self.ev = None
        self.parts = []

    def newp(self):
        return Particle('nu_e', (0, 0, -100.0 - len(self.parts)), (0, 0, 1), 1e8, interaction_type='nc')

    def step(self, label, st):
        last = st['last']
        op = last['op']
        if op == 'NewEvent':
            self.parts = [self.newp() for _ in range(last['k'])]
            self.ev = Event(self.parts[0] if last['k'] == 1 else list(self.parts))
            self.parts = list(self.parts)
        elif op == 'AddChildren':
            new = []
            for _ in range(last['n']):
                p = self.newp()
                self.parts.append(p)
                new.append(p)
            self.ev.add_children(self.parts[last['p'] - 1], new[0] if last['single'] else new)
        elif op == 'AddToForeign':
            try:
                self.ev.add_children(self.newp_foreign(), [self.newp_foreign()])
            except ValueError:
                pass
            else:
                raise Divergence('add_children(foreign parent)', 'ValueError', 'accepted')
        elif op == 'Shower':
            base = GQRSInteraction if last['model'] == 'GQRS' else CTWInteraction
            cls = scripted(base, last['y'], [tuple(c) for c in last['cands']], bool(last['sec']))
            p = Particle(FLAV[last['flav']], (0, 0, -100), (0, 0, 1), E0, interaction_model=cls, interaction_type=last['kind'])
            got = (p.interaction.em_frac * 10.0, p.interaction.had_frac * 10.0, cls.tries)
            want = tuple(last['res'])
            if last['flav'] == 'e' or not last['sec'] or last['kind'] == 'nc':
                want = (want[0], want[1], 0)        # the scripted sampler is not consulted
                got = (got[0], got[1], 0)
            elif cls.tries == 0:
                # the candidates are scripted through a private hook of the interaction class; if the code no longer consults it
                # (renamed, restructured) the candidates cannot be steered: check only what the property itself says
                em, had = p.interaction.em_frac, p.interaction.had_frac
                if not (em >= 0 and had >= 0 and em + had <= 1 + 1e-12):
                    raise Divergence('shower fractions (unscripted) for %s' % {k: last[k] for k in ('kind', 'flav', 'y', 'sec', 'model')},
                                     'non-negative, sum <= 1', (em, had))
                self.unscripted = getattr(self, 'unscripted', 0) + 1
                return
            if not (abs(got[0] - want[0]) <= 1e-9 and abs(got[1] - want[1]) <= 1e-9) or got[2] != want[2]:
                raise Divergence('shower fractions (em, had in tenths, tries) for %s' % {k: last[k] for k in ('kind', 'flav', 'y', 'sec', 'cands', 'model')},
                                 want, got)
            if not (abs(p.interaction.inelasticity * 10 - last['y']) <= 1e-9):
                raise Divergence('inelasticity', last['y'] / 10.0, p.interaction.inelasticity)
            return
        elif op == 'Sigma':
            self.sigma(last)
            return
        else:
            raise Divergence('op', 'known op', op)
        self.compare(st)

    def newp_foreign(self):
        return Particle('nu_mu', (1, 1, -5), (0, 0, 1), 1e7, interaction_type='cc')

    def compare(self, st):
        allp, kids, nroots = st['all'], st['kids'], st['nroots']
        ev = self.ev
        self.queries += 1
        got = list(ev)
        if len(got) != len(allp) or any(a is not b for a, b in zip(got, self.parts)):
            raise Divergence('iteration of the event', 'each particle once in insertion order (%d)' % len(allp), len(got))
        if len(ev) != len(allp):
            raise Divergence('len(event)', len(allp), len(ev))
        parent = {}
        for i, ks in enumerate(kids, start=1):
            ch = ev.get_children(self.parts[i - 1])
            if [self.parts.index(c) + 1 for c in ch] != list(ks):
                raise Divergence('get_children(particle %d)' % i, list(ks), [self.parts.index(c) + 1 for c in ch])
            for k in ks:
                parent[k] = i
        for c in range(1, len(allp) + 1):
            p = ev.get_parent(self.parts[c - 1])
            want = parent.get(c)
            gotp = None if p is None else self.parts.index(p) + 1
            if gotp != want:
                raise Divergence('get_parent(particle %d)' % c, want, gotp)
        level = {c: 0 for c in range(1, nroots + 1)}
        for c in range(nroots + 1, len(allp) + 1):
            level[c] = level[parent[c]] + 1
        for l in range(0, max(level.values(), default=0) + 2):
            want = sorted(c for c, v in level.items() if v == l)
            gl = sorted(self.parts.index(x) + 1 for x in ev.get_from_level(l))
            if gl != want:
                raise Divergence('get_from_level(%d)' % l, want, gl)

    def sigma(self, last):
        import scipy.constants
        base = GQRSInteraction if last['model'] == 'GQRS' else CTWInteraction
        pid = {'e': 'nu_e', 'mu': 'nu_mu', 'tau': 'nu_tau'}[last['flav']] + ('_bar' if last['anti'] else '')
        prev = None
        for dec in range(last['decades'][0], last['decades'][1] + 1):
            for mant in (1.0, 3.0):
                e = mant * 10.0 ** dec
                if e > 10.0 ** last['decades'][1]:
                    continue
                cc = Particle(pid, (0, 0, -100), (0, 0, 1), e, interaction_model=base, interaction_type='cc').interaction
                nc = Particle(pid, (0, 0, -100), (0, 0, 1), e, interaction_model=base, interaction_type='nc').interaction
                vals = {'cc': cc.cross_section, 'nc': nc.cross_section, 'total': cc.total_cross_section}
                where = '%s %s at %g GeV' % (last['model'], pid, e)
                for k, v in vals.items():
                    if not (v > 0 and np.isfinite(v)):
                        raise Divergence(where + ': %s cross section positive' % k, '> 0', v)
                if not (abs(nc.total_cross_section - vals['total']) <= 1e-12 * vals['total']):
                    raise Divergence(where + ': total cross section independent of the interaction kind', vals['total'], nc.total_cross_section)
                if last['additive'] and abs(vals['cc'] + vals['nc'] - vals['total']) > 1e-9 * vals['total']:
                    raise Divergence(where + ': cc + nc = total', vals['total'], vals['cc'] + vals['nc'])
                for inter, key in ((cc, 'cc'), (nc, 'nc')):
                    want = 1 / (scipy.constants.N_A * vals[key])
                    if not (abs(inter.interaction_length - want) <= 1e-9 * want):
                        raise Divergence(where + ': %s interaction length = 1/(N_A sigma)' % key, want, inter.interaction_length)
                want = 1 / (scipy.constants.N_A * vals['total'])
                if not (abs(cc.total_interaction_length - want) <= 1e-9 * want):
                    raise Divergence(where + ': total interaction length = 1/(N_A sigma)', want, cc.total_interaction_length)
                # the same interaction object after its kind is switched reports the other kind's numbers
                cc.interaction_length
                cc.kind = 'nc'
                if not (abs(cc.cross_section - vals['nc']) <= 1e-12 * vals['nc'] and abs(cc.interaction_length - nc.interaction_length) <= 1e-9 * nc.interaction_length):
                    raise Divergence(where + ': interaction switched from cc to nc (cross section, length)', (vals['nc'], nc.interaction_length),
                                     (cc.cross_section, cc.interaction_length))
                if prev is not None:
                    for k in vals:
                        if not vals[k] > prev[k]:
                            raise Divergence(where + ': %s cross section increases with energy' % k, '> %g' % prev[k], vals[k])
                prev = vals
