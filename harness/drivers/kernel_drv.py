"""Binding of spec/Kernel.tla to pyrex.kernel.EventKernel (C10).

(i)  spec -> code: KernelDriver builds scripted components from the scenario of a TLC
     behaviour, runs the real EventKernel.event() once and compares the recorded component
     calls with the behaviour, action by action.
(ii) code -> spec: record_run() wraps the real shipped components (tracer class, signal
     model, antennas, writer, trigger functions) in recording proxies, runs event() and
     returns the scenario derived from the observation plus the observable events, to be
     validated by TLC against TraceKernel.tla.
Both produce the same event vocabulary:
  CreateEvent | Tracer(p,a,n) | Solution(p,a,s,kind,model,propagated,grid_ok) |
  EvalTriggers(form,global,extra) | WriterAdd(paths,pols,thrown,triggered) | Return(triggered) | Exception(what)
"""
import numpy as np
import pyrex
from pyrex.signals import EmptySignal, Signal
from pyrex.kernel import EventKernel
from vlib.core import Divergence

SIGNAL_TIMES = np.linspace(0, 20e-9, 8, endpoint=False)
COS60 = 0.5
SIN60 = np.sqrt(3) / 2


class Log(list):
    pass


# ------------------------------------------------------------------ scripted components
class MockIce:
    def index(self, z):
        return 2.0          # Cherenkov angle 60 degrees


class MockGen:
    def __init__(self, sc, log):
        self.sc, self.log = sc, log
        self.count = 5

    def create_event(self):
        self.log.append({'ev': 'CreateEvent'})
        parts = []
        for k in range(1, self.sc['P'] + 1):
            w = self.sc['w'][k - 1]
            part = pyrex.Particle('nu_e', (float(k), 0.0, -100.0), (0, 0, 1), 1e8,
                                  weight=None if w['forced'] == -1 else w['forced'] / 10.0)
            part.survival_weight = None if w['surv'] == -1 else w['surv'] / 10.0
            part.interaction_weight = None if w['inter'] == -1 else w['inter'] / 10.0
            parts.append(part)
        self.count += self.sc['thrown']
        self.event = pyrex.Event(parts)
        return self.event


def tof_of(p, a, s):
    return (100 * p + 10 * a + s) * 1e-6


def length_of(p, a, s):
    return 1000.0 * p + 100.0 * a + s


class MockPath:
    def __init__(self, sc, log, p, a, s):
        self.sc, self.log, self.p, self.a, self.s = sc, log, p, a, s
        off = (p, a, s) in sc['off']
        self.emitted_direction = np.array([0.0, 0.0, -1.0]) if off else np.array([SIN60, 0.0, COS60])
        self.received_direction = np.array([0.0, 0.0, 1.0])
        self.path_length = length_of(p, a, s)
        self.tof = tof_of(p, a, s)

    def propagate(self, signal=None, polarization=None, attenuation_interpolation=None):
        self.log.append({'ev': '_Propagate', 'p': self.p, 'a': self.a, 's': self.s,
                         'interp': attenuation_interpolation})
        out = []
        for _ in range(2):
            c = signal.copy()
            c.shift(self.tof)
            out.append(c)
        return out, [np.array([0.0, 1.0, 0.0]), np.array([1.0, 0.0, 0.0])]


def make_mock_tracer(sc, log):
    class MockTracer:
        def __init__(self, from_point, to_point, ice_model=None):
            self.p, self.a = int(round(from_point[0])), int(round(to_point[0]))
            n = sc['nsol'][self.p - 1][self.a - 1]
            log.append({'ev': 'Tracer', 'p': self.p, 'a': self.a, 'n': n})
            self._sols = [MockPath(sc, log, self.p, self.a, s) for s in range(1, n + 1)]

        @property
        def exists(self):
            return len(self._sols) > 0

        @property
        def solutions(self):
            return self._sols
    return MockTracer


def make_mock_model(sc, log):
    def model(times=None, particle=None, viewing_angle=None, viewing_distance=None, ice_model=None):
        d = int(round(viewing_distance))
        p, a, s = d // 1000, (d // 100) % 10, d % 100
        log.append({'ev': '_Model', 'p': p, 'a': a, 's': s})
        if (p, a, s) in sc['bad']:
            raise ValueError('signal model refuses')
        return Signal(times, np.ones(len(times)), value_type='field')
    return model


class MockAntenna:
    def __init__(self, a, log):
        self.a, self.log = a, log
        self.position = np.array([float(a), 0.0, -50.0])
        self.received = []

    def receive(self, signal, direction=None, polarization=None, force_real=False):
        sigs = signal if isinstance(signal, (list, tuple)) else [signal]
        t0 = sigs[0].times[0] - SIGNAL_TIMES[0]
        code = int(round(t0 / 1e-6))
        p, a, s = code // 100, (code // 10) % 10, code % 10
        grid_ok = all(len(x.times) == len(SIGNAL_TIMES) and np.allclose(x.times, SIGNAL_TIMES + tof_of(p, a, s), rtol=0, atol=1e-15)
                      for x in sigs)
        kind = 'empty' if all(isinstance(x, EmptySignal) for x in sigs) else 'pulse'
        self.received.append((p, s, kind))
        self.log.append({'ev': '_Receive', 'a': self.a, 'p': p, 's': s, 'kind': kind, 'grid_ok': bool(grid_ok and a == self.a)})


class MockWriter:
    is_open = True
    has_detector = True

    def __init__(self, log):
        self.log = log

    def create_analysis_metadataset(self, *a, **k):
        pass

    def add_analysis_metadata(self, *a, **k):
        pass

    def add(self, event=None, triggered=None, ray_paths=None, polarizations=None, events_thrown=1):
        self.log.append({'ev': 'WriterAdd', 'event': event,
                         'paths': [[[x.p, x.s] for x in lst] for lst in ray_paths],
                         'pols': [len(lst) for lst in polarizations],
                         'pols_unit': all(abs(np.linalg.norm(v) - 1) < 1e-9 or np.linalg.norm(v) == 0
                                          for lst in polarizations for v in lst),
                         'thrown': int(events_thrown), 'triggered': triggered})


def trigger_functions(form, log):
    def glob(ants):
        log.append({'ev': '_Trigger', 'key': 'global'})
        return any(len(a.received) > 0 for a in ants)

    def extra(ants):
        log.append({'ev': '_Trigger', 'key': 'extra'})
        return any(len(a.received) > 1 for a in ants)
    if form == 'none':
        return None
    if form == 'func':
        return glob
    return {'global': glob, 'extra': extra}


def collapse(log):
    """fold the per-component entries (_Model, _Propagate, _Receive, _Trigger) into the spec's observable events"""
    out = []
    i = 0
    pend = None
    trig = None
    for e in log:
        ev = e['ev']
        if ev in ('_Model', '_Propagate'):
            if pend is None:
                pend = {'ev': 'Solution', 'p': e['p'], 'a': e['a'], 's': e['s'], 'model': False, 'propagated': False}
            if ev == '_Model':
                pend['model'] = True
            else:
                pend['propagated'] = True
                pend['interp'] = e.get('interp')
        elif ev == '_Receive':
            if pend is None:
                pend = {'ev': 'Solution', 'p': e['p'], 'a': e['a'], 's': e['s'], 'model': False, 'propagated': False}
            if (pend['p'], pend['a'], pend['s']) != (e['p'], e['a'], e['s']):
                out.append(dict(pend, ev='Exception', what='receive of %s does not match the solution in progress' % ((e['p'], e['a'], e['s']),)))
            pend.update(kind=e['kind'], grid_ok=e['grid_ok'])
            out.append(pend)
            pend = None
        elif ev == '_Trigger':
            if trig is None:
                trig = {'ev': 'EvalTriggers', 'keys': []}
                out.append(trig)
            trig['keys'].append(e['key'])
        else:
            if pend is not None:
                out.append(dict(pend, ev='Exception', what='solution without receive'))
                pend = None
            out.append(e)
    if pend is not None:
        out.append(dict(pend, ev='Exception', what='solution without receive'))
    return out


def sc_py(sc):
    """scenario record (parsed TLA value) -> plain python"""
    return {'P': sc['P'], 'A': sc['A'], 'w': [dict(x) for x in sc['w']], 'wmin': dict(sc['wmin']),
            'nsol': [list(r) for r in sc['nsol']], 'off': {tuple(x) for x in sc['off']},
            'bad': {tuple(x) for x in sc['bad']}, 'trig': sc['trig'], 'writer': sc['writer'], 'thrown': sc['thrown']}


class KernelDriver:
    """spec -> code with scripted components"""

    def __init__(self):
        self.events_run = 0

    def stats(self):
        st = {'kernel_events_run_on_scripted_components': self.events_run}
        self.events_run = 0
        return st

    def cleanup(self):
        pass

    def reset(self, st):
        sc = sc_py(st['sc'])
        self.sc = sc
        log = Log()
        gen = MockGen(sc, log)
        ants = [MockAntenna(a, log) for a in range(1, sc['A'] + 1)]
        wm = sc['wmin']
        weight_min = None if wm['form'] == 'none' else (wm['m1'] / 10.0 if wm['form'] == 'scalar' else (wm['m1'] / 10.0, wm['m2'] / 10.0))
        self.writer = MockWriter(log) if sc['writer'] else None
        kernel = EventKernel(gen, ants, ice_model=MockIce(), ray_tracer=make_mock_tracer(sc, log),
                             signal_model=make_mock_model(sc, log), signal_times=SIGNAL_TIMES,
                             event_writer=self.writer, triggers=trigger_functions(sc['trig'], log),
                             offcone_max=40, weight_min=weight_min, attenuation_interpolation=0.25)
        self.gen = gen
        try:
            self.ret = kernel.event()
        except Exception as ex:
            log.append({'ev': 'Exception', 'what': repr(ex)})
            self.ret = None
        self.events_run += 1
        self.obs = collapse(log)
        self.pos = 0

    def take(self, want):
        if self.pos >= len(self.obs):
            raise Divergence('component call #%d' % self.pos, want, 'nothing (event() made fewer calls)')
        e = self.obs[self.pos]
        self.pos += 1
        if e['ev'] != want:
            raise Divergence('component call #%d' % (self.pos - 1), want, {k: v for k, v in e.items() if k != 'event'})
        return e

    def step(self, label, st):
        last = st['last']
        op = last['op']
        if op in ('SkipParticle', 'TakeParticle'):
            return
        if op == 'CreateEvent':
            self.take('CreateEvent')
        elif op == 'Tracer':
            e = self.take('Tracer')
            if (e['p'], e['a']) != (last['p'], last['a']):
                raise Divergence('tracer constructed for', (last['p'], last['a']), (e['p'], e['a']))
        elif op == 'Solution':
            e = self.take('Solution')
            want = dict(p=last['p'], a=last['a'], s=last['s'], kind=last['kind'], model=last['modelCalled'],
                        propagated=(last['kind'] == 'pulse'), grid_ok=True)
            got = {k: e.get(k) for k in want}
            if got != want:
                raise Divergence('solution handling', want, got)
            if e['propagated'] and e.get('interp') != 0.25:
                raise Divergence('attenuation_interpolation passed to propagate', 0.25, e.get('interp'))
        elif op == 'EvalTriggers':
            if self.sc['trig'] != 'none':
                e = self.take('EvalTriggers')
                want = ['global'] if self.sc['trig'] == 'func' else ['global', 'extra']
                if sorted(e['keys']) != sorted(want):
                    raise Divergence('trigger functions evaluated', want, e['keys'])
        elif op == 'WriterAdd':
            e = self.take('WriterAdd')
            if e['event'] is not self.gen.event:
                raise Divergence('writer.add event', 'the generator\'s event', 'another object')
            want_paths = [[list(x) for x in lst] for lst in last['paths']]
            if e['paths'] != want_paths:
                raise Divergence('writer.add ray_paths', want_paths, e['paths'])
            if e['pols'] != [len(lst) for lst in last['pols']] or not e['pols_unit']:
                raise Divergence('writer.add polarizations (count per antenna, unit vectors)',
                                 [len(lst) for lst in last['pols']], (e['pols'], e['pols_unit']))
            if e['thrown'] != last['thrown']:
                raise Divergence('writer.add events_thrown', last['thrown'], e['thrown'])
            t = last['triggered']
            want_t = None if t['form'] == 'none' else (t['global'] if t['form'] == 'func' else {'global': t['global'], 'extra': t['extra']})
            if e['triggered'] != want_t:
                raise Divergence('writer.add triggered', want_t, e['triggered'])
        elif op == 'Return':
            if self.pos != len(self.obs):
                raise Divergence('component calls after the last expected one', 'none',
                                 [{k: v for k, v in x.items() if k != 'event'} for x in self.obs[self.pos:]])
            res = last['res']
            if 'triggered' in res:
                if not (isinstance(self.ret, tuple) and self.ret[0] is self.gen.event and self.ret[1] == res['triggered']):
                    raise Divergence('return value', ('event', res['triggered']), repr(self.ret))
            elif self.ret is not self.gen.event:
                raise Divergence('return value', 'the generator\'s event', repr(self.ret))
        else:
            raise Divergence('op', 'known op', op)
