"""Driver binding spec/LazyObj.tla to the LazyMutableClass-based ray tracers and ray paths (C06).

Attribute values of the spec are small integers decoded into real values (points, ice models, steps,
angles).  After every Read the values of the property group read from the mutated real object are
compared with those of a freshly constructed object that has the current attribute values.

A second real object (`eager`) receives the same operations but has *every* property group read and compared after
*every* step: its caches are always filled when the next mutation arrives, which is the situation in which a forgotten
invalidation shows -- an edge cover of the spec graph does not guarantee that order for the lazily read object.
"""
import numpy as np
from pyrex.ice_model import AntarcticIce, GreenlandIce, UniformIce
from pyrex.ray_tracing import SpecializedRayTracer, BasicRayTracer, UniformRayTracer
from pyrex.custom.layered_ice import LayeredIce, LayeredRayTracer
from vlib.core import Divergence

POINTS = {'from_point': [(0.0, 0.0, -250.0), (30.0, 40.0, -600.0), (-100.0, 20.0, -100.0)],
          'to_point': [(100.0, 0.0, -100.0), (300.0, 400.0, -150.0), (20.0, -10.0, -400.0)]}
DELTA = np.array([35.0, -20.0, -15.0])


def decode(kind, a, v):
    if a in POINTS:
        return np.array(POINTS[a][v % 10]) + (v // 10) * DELTA
    if a == 'ice':
        i = v % 10 % 3
        if kind == 'uniform':
            return [UniformIce(1.5, valid_range=(-2000, 0), index_above=1.0, index_below=1.3), UniformIce(1.78, valid_range=(-2000, 0)),
                    UniformIce(1.35, valid_range=(-1500, 0), index_above=None)][i]
        if kind == 'layered':
            return [LayeredIce([UniformIce(1.35, valid_range=(-120, 0)), UniformIce(1.6, valid_range=(-2000, -120))]),
                    LayeredIce([UniformIce(1.5, valid_range=(-300, 0)), UniformIce(1.78, valid_range=(-2000, -300))]),
                    LayeredIce([UniformIce(1.4, valid_range=(-2000, 0))])][i]
        return [AntarcticIce(), GreenlandIce(), AntarcticIce(n0=1.7, k=0.4, a=0.02)][i]
    if a == 'dz':
        return [1.0, 2.0, 0.5][v % 10 % 3]
    if a == 'theta0':
        return [0.6, 0.9, 1.2][v % 10 % 3]
    if a == 'direct':
        return [True, False, True][v % 10 % 3]
    raise KeyError(a)


CLASSES = {'specialized': SpecializedRayTracer, 'basic': BasicRayTracer, 'uniform': UniformRayTracer, 'layered': LayeredRayTracer}


def build_tracer(kind, attrs):
    cls = CLASSES[kind]
    kw = {}
    if kind in ('specialized', 'basic'):
        kw['dz'] = decode(kind, 'dz', attrs['dz'])
    return cls(decode(kind, 'from_point', attrs['from_point']), decode(kind, 'to_point', attrs['to_point']),
               decode(kind, 'ice', attrs['ice']), **kw)


def tracer_obs(tr, group):
    if group == 'scalars':
        out = [float(tr.rho), float(tr.n0), bool(tr.exists)]
        if hasattr(tr, 'max_angle'):
            out.append(float(tr.max_angle))
        return out
    sols = tr.solutions
    out = [len(sols)]
    for s in sols:
        out += [float(s.path_length), float(s.tof)] + [float(x) for x in s.emitted_direction] + [float(x) for x in s.received_direction]
        out += [float(getattr(s, 'dz', 0.0))] + [float(x) for x in np.atleast_1d(s.attenuation(np.array([3e8])))]
        out += [float(len(s.coordinates[2]))]
    return out


def path_obs(p, group):
    if group == 'tof':
        out = [float(p.tof), float(p.path_length)]
        out += [float(x) for x in np.atleast_1d(p.attenuation(np.array([1e8, 5e8])))]       # integrates along the legs: must follow the attributes
        for r in p.fresnel:
            out += [float(np.real(r)), float(np.imag(r))]
        return out
    return [float(x) for x in p.emitted_direction] + [float(x) for x in p.received_direction] + [float(p.rho), float(p.phi)]


class LazyDriver:
    def __init__(self, kind='specialized', target='tracer', eager=True):
        self.kind, self.target, self.use_eager = kind, target, eager
        self.reads = 0

    def stats(self):
        st = {'lazy_reads_compared_with_fresh_object': self.reads}
        self.reads = 0
        return st

    def cleanup(self):
        self.obj = None
        self.eager = None

    def make(self, attrs):
        if self.target == 'tracer':
            return build_tracer(self.kind, attrs)
        tr = build_tracer(self.kind, attrs)
        cls = tr.solution_class
        if self.kind == 'uniform':
            # UniformRayTracePath(parent, launch_angle, reflections): one reflection; `direct` is not a defining attribute
            return cls(tr, decode(self.kind, 'theta0', attrs['theta0']), 1)
        return cls(tr, decode(self.kind, 'theta0', attrs['theta0']), decode(self.kind, 'direct', attrs['direct']))

    def reset(self, st):
        self.obj = self.make(st['attrs'])
        self.eager = self.make(st['attrs']) if self.use_eager else None
        if self.use_eager:
            self.check_eager(st, 'construction')
            if self.target == 'tracer':
                self.check_caller_arrays(st)

    def check_caller_arrays(self, st):
        """derived quantities equal those of a fresh object with the *current* defining attributes also after the caller changes the
        arrays it passed to the constructor (whether or not the tracer kept them)"""
        attrs = st['attrs']
        src = np.array(decode(self.kind, 'from_point', attrs['from_point']), dtype=np.float64)
        dst = np.array(decode(self.kind, 'to_point', attrs['to_point']), dtype=np.float64)
        kw = {'dz': decode(self.kind, 'dz', attrs['dz'])} if self.kind in ('specialized', 'basic') else {}
        ice = decode(self.kind, 'ice', attrs['ice'])
        tr = CLASSES[self.kind](src, dst, ice, **kw)
        for group in ('scalars', 'solutions'):
            try:
                tracer_obs(tr, group)                  # fill the caches
            except Exception:
                return
        src += DELTA
        dst -= DELTA
        fresh = CLASSES[self.kind](np.array(tr.from_point, dtype=float), np.array(tr.to_point, dtype=float), ice, **kw)
        for group in ('scalars', 'solutions'):
            res = []
            for o in (tr, fresh):
                try:
                    res.append((tracer_obs(o, group), None))
                except Exception as ex:
                    res.append((None, type(ex).__name__))
            (got, gex), (want, wex) = res
            if gex != wex or (got is not None and (len(got) != len(want) or not np.allclose(got, want, rtol=1e-9, atol=1e-12, equal_nan=True))):
                raise Divergence('%s tracer (%s group) after the caller changed the coordinate arrays it had passed to the constructor, vs a fresh '
                                 'tracer with the end points the tracer now reports' % (self.kind, group), wex or want, gex or got)

    def apply(self, obj, last):
        if last['op'] == 'Assign':
            setattr(obj, last['a'], decode(self.kind, last['a'], last['v']))
        elif last['op'] == 'AugAssign':
            if last['a'] == 'from_point':
                obj.from_point += DELTA
            else:
                obj.to_point += DELTA

    def check_eager(self, st, after):
        f = tracer_obs if self.target == 'tracer' else path_obs
        fresh = self.make(st['attrs'])
        for group in (('scalars', 'solutions') if self.target == 'tracer' else ('tof', 'geometry')):
            res = []
            for o in (self.eager, fresh):
                try:
                    res.append((f(o, group), None))
                except Exception as ex:
                    res.append((None, type(ex).__name__))
            (got, gex), (want, wex) = res
            self.reads += 1
            if gex != wex:
                raise Divergence('%s.%s of the eagerly read object after %s, attributes %s' % (self.kind, group, after, dict(st['attrs'])), wex or want, gex or got)
            if got is not None and (len(got) != len(want) or not np.allclose(got, want, rtol=1e-9, atol=1e-12, equal_nan=True)):
                raise Divergence('%s %s (%s group) of the eagerly read object after %s vs fresh object with attributes %s' % (
                    self.kind, self.target, group, after, dict(st['attrs'])), want, got)

    def step(self, label, st):
        last = st['last']
        op = last['op']
        if op in ('Assign', 'AugAssign') and self.use_eager:
            self.apply(self.eager, last)
            self.check_eager(st, '%s of %s' % (op, last['a']))
        if op == 'Assign':
            setattr(self.obj, last['a'], decode(self.kind, last['a'], last['v']))
        elif op == 'AugAssign':
            if last['a'] == 'from_point':
                self.obj.from_point += DELTA
            else:
                self.obj.to_point += DELTA
        elif op == 'Read':
            fresh = self.make(st['attrs'])
            f = tracer_obs if self.target == 'tracer' else path_obs
            try:
                got = f(self.obj, last['p'])
                got_exc = None
            except Exception as ex:
                got, got_exc = None, type(ex).__name__
            try:
                want = f(fresh, last['p'])
                want_exc = None
            except Exception as ex:
                want, want_exc = None, type(ex).__name__
            self.reads += 1
            if got_exc != want_exc:
                raise Divergence('%s.%s after %s' % (self.kind, last['p'], dict(st['attrs'])), want_exc or want, got_exc or got)
            if got is not None and (len(got) != len(want) or not np.allclose(got, want, rtol=1e-9, atol=1e-12, equal_nan=True)):
                raise Divergence('%s %s (%s group) vs fresh object with attributes %s' % (self.kind, self.target, last['p'], dict(st['attrs'])),
                                 want, got)
        else:
            raise Divergence('op', 'known op', op)
