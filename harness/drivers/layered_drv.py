"""Driver binding spec/LayeredPaths.tla to pyrex.custom.layered_ice.LayeredRayTracer (C18 layered half).

Every finished behaviour of the walker is an exact solution (rational Snell geometry, beta = 1.2): the
receiver is placed at the exact horizontal distance and the tracer must return a solution with that path
length, time of flight, launch direction and chain of layers.  Independently of the spec, every returned
solution is checked to be a continuous chain of single-layer paths inside their layers that obeys Snell's
law (or mirror reflection) at each junction.  Split equivalence: uniform ice cut at a lattice depth gives
the UniformRayTracer's solutions with unit transmission; exponential ice cut at a depth reproduces the
SpecializedRayTracer's solutions (tolerance of the root search).
"""
import numpy as np
import scipy.constants
from pyrex.ice_model import UniformIce, AntarcticIce
from pyrex.ray_tracing import UniformRayTracer, SpecializedRayTracer
from pyrex.custom.layered_ice import LayeredIce, LayeredRayTracer
from vlib.core import Divergence

AZ = [(1.0, 0.0), (0.6, 0.8), (0.0, -1.0), (-0.8, 0.6)]
OFF = [(0.0, 0.0), (300.0, -200.0)]
BETA = 1.2


def build_ice(stack):
    layers, top = [], 0.0
    for L in stack:
        layers.append(UniformIce(L['n'] / 10.0, valid_range=(top - L['h'], top)))
        top -= L['h']
    return LayeredIce(layers, index_above=1.0, index_below=None)


def check_chain(where, sol, ice, src, dst, tol=1e-6):
    """every solution is a continuous chain obeying Snell / mirror law"""
    ps = sol.paths
    if not np.allclose(ps[0].from_point, src, rtol=0, atol=tol) or not np.allclose(ps[-1].to_point, dst, rtol=0, atol=tol):
        raise Divergence(where + ' chain endpoints', (list(src), list(dst)), (list(ps[0].from_point), list(ps[-1].to_point)))
    for k, p in enumerate(ps):
        lo, hi = p.ice.valid_range
        for pt in (p.from_point, p.to_point):
            if not (lo - tol <= pt[2] <= hi + tol):
                raise Divergence(where + ' leg %d inside its layer' % k, (lo, hi), float(pt[2]))
    for k in range(len(ps) - 1):
        a, b = ps[k], ps[k + 1]
        if not np.allclose(a.to_point, b.from_point, rtol=0, atol=tol):
            raise Divergence(where + ' continuity at junction %d' % k, list(map(float, a.to_point)), list(map(float, b.from_point)))
        da, db = np.asarray(a.received_direction, float), np.asarray(b.emitted_direction, float)
        na, nb = a.ice.index(a.to_point[2]), b.ice.index(b.from_point[2])
        ha, hb = np.hypot(da[0], da[1]), np.hypot(db[0], db[1])
        if np.sign(da[2]) != np.sign(db[2]) and da[2] != 0:
            # reflection: horizontal part kept, vertical flipped
            if not np.allclose([db[0], db[1], -db[2]], da, rtol=0, atol=tol):
                raise Divergence(where + ' mirror law at junction %d' % k, list(da * [1, 1, -1]), list(db))
        else:
            if not (abs(na * ha - nb * hb) <= tol * max(na, nb)):
                raise Divergence(where + " Snell's law at junction %d (n sin theta)" % k, float(na * ha), float(nb * hb))
            if ha > 1e-9 and hb > 1e-9 and not np.allclose(da[:2] / ha, db[:2] / hb, rtol=0, atol=tol):
                raise Divergence(where + ' azimuth at junction %d' % k, list(da[:2] / ha), list(db[:2] / hb))


class LayeredDriver:
    def __init__(self):
        self.solved = 0

    def stats(self):
        st = {'layered_geometries_traced': self.solved}
        self.solved = 0
        return st

    def cleanup(self):
        pass

    def reset(self, st):
        pass

    def step(self, label, st):
        if st['pc'] != 'done':
            return
        stack = st['st']
        ice = build_ice(stack)
        k = (st['zs'] + 7 * st['zr'] + st['rho']) % 8
        ux, uy = AZ[k % 4]
        x0, y0 = OFF[(k // 4) % 2]
        rho, L, opt = float(st['rho']), float(st['len']), st['opt'] / 10.0
        src = np.array([x0, y0, float(st['zs'])])
        dst = np.array([x0 + rho * ux, y0 + rho * uy, float(st['zr'])])
        tr = LayeredRayTracer(src, dst, ice)
        sols = tr.solutions
        self.solved += 1
        where = 'stack %s zs=%d zr=%d d0=%+d chain=%s' % ([dict(x) for x in stack], st['zs'], st['zr'], st['d0'], list(st['chain']))
        if bool(tr.exists) != (len(sols) > 0):
            raise Divergence(where + ' exists', len(sols) > 0, tr.exists)
        for s in sols:
            check_chain(where, s, ice, src, dst)
        n0 = stack[st['chain'][0][0] - 1]['n'] / 10.0
        sin0 = BETA / n0
        cos0 = np.sqrt(1 - sin0 ** 2) * st['d0']
        want_dir = np.array([sin0 * ux, sin0 * uy, cos0])
        tof = opt / scipy.constants.c
        best = None
        for s in sols:
            err = abs(s.path_length - L) / L + abs(s.tof - tof) / tof + np.max(np.abs(np.asarray(s.emitted_direction) - want_dir))
            if best is None or err < best[0]:
                best = (err, s)
        if best is None or best[0] > 1e-6:
            raise Divergence(where + ' expected solution (length, tof, launch direction)', (L, tof, list(want_dir)),
                             [(float(s.path_length), float(s.tof), [float(x) for x in s.emitted_direction]) for s in sols])
        s = best[1]
        legs = [(int(c[0]), float(c[1]), float(c[2])) for c in st['chain']]
        got = []
        for p in s.paths:
            xs, ys, zs = p.coordinates
            for a, b in zip(zs[:-1], zs[1:]):
                got.append((float(a), float(b)))
        wantz = [(a, b) for _, a, b in legs]
        if len(got) != len(wantz) or not np.allclose(got, wantz, rtol=0, atol=1e-6):
            raise Divergence(where + ' vertical legs of the matched solution', wantz, got)


def split_checks(rng, n_uniform=12, n_exp=6):
    """metamorphic part: split media reproduce the unsplit tracers' solutions"""
    out = 0
    reuse = None
    for i in range(n_uniform):
        n = rng.choice([1.3, 1.5, 1.78])
        D = rng.choice([300.0, 600.0])
        cut = -float(rng.choice([60, 120, 180, 240]))
        zs, zr = -float(rng.choice([30, 90, 150, 270])), -float(rng.choice([30, 100, 200, 290]))
        if i % 4 == 3:
            zr = zs                                  # both endpoints at exactly the same depth (one horizontal direct ray)
        rho = float(rng.choice([40, 150, 500]))
        ux, uy = rng.choice(AZ)
        x0, y0 = rng.choice(OFF)
        src, dst = np.array([x0, y0, zs]), np.array([x0 + rho * ux, y0 + rho * uy, zr])
        whole = UniformIce(n, valid_range=(-D, 0), index_above=1.0, index_below=None)

        class U1(UniformRayTracer):
            max_reflections = 1
        ref = U1(src, dst, whole).solutions
        new_layers = [UniformIce(n, valid_range=(cut, 0)), UniformIce(n, valid_range=(-D, cut))]
        if i % 2 and reuse is not None:
            lay = reuse                         # the same LayeredIce object with a different split
            lay.layers = new_layers
        else:
            lay = LayeredIce(new_layers, index_above=1.0, index_below=None)
            reuse = lay
        sols = LayeredRayTracer(src, dst, lay).solutions
        where = 'uniform n=%g split at %g: src=%s dst=%s' % (n, cut, list(src), list(dst))
        for r in ref:
            m = [s for s in sols if abs(s.path_length - r.path_length) < 1e-6 * r.path_length and abs(s.tof - r.tof) < 1e-6 * r.tof
                 and np.allclose(s.emitted_direction, r.emitted_direction, atol=1e-6) and np.allclose(s.received_direction, r.received_direction, atol=1e-6)]
            if not m:
                raise Divergence(where + ' unsplit solution reproduced', (float(r.path_length), float(r.tof)),
                                 [(float(s.path_length), float(s.tof)) for s in sols])
            live = [s for s in m if abs(s.fresnel[0]) > 1e-9 or abs(s.fresnel[1]) > 1e-9]
            if len(live) > 1:
                raise Divergence(where + ' copies of one unsplit solution among the solutions of the split medium', 1, len(live))
            fs, fp = m[0].fresnel
            rs, rp = r.fresnel
            if not (abs(fs - rs) <= 1e-9 and abs(fp - rp) <= 1e-9):
                raise Divergence(where + ' unit transmission through the artificial boundary (fresnel)', (complex(rs), complex(rp)), (complex(fs), complex(fp)))
        for s in sols:
            check_chain(where, s, lay, src, dst)
            fs, fp = s.fresnel
            matched = any(abs(s.path_length - r.path_length) < 1e-6 * r.path_length for r in ref)
            if not matched and (abs(fs) > 1e-9 or abs(fp) > 1e-9):
                raise Divergence(where + ' extra solution of the split medium must carry no amplitude', 0.0, (complex(fs), complex(fp)))
        out += 1
    for i in range(n_exp):
        cut = -float(rng.choice([50, 120, 300]))
        zs, zr = -float(rng.choice([80, 200, 400])), -float(rng.choice([30, 150, 350]))
        rho = float(rng.choice([100, 250]))
        src, dst = np.array([0.0, 0.0, zs]), np.array([rho, 0.0, zr])
        ref = SpecializedRayTracer(src, dst, AntarcticIce()).solutions
        lay = LayeredIce([AntarcticIce(valid_range=(cut, 0)), AntarcticIce(valid_range=(-2850, cut))])
        if i == n_exp - 1:
            src, dst = np.array([0.0, 0.0, -20.0]), np.array([3000.0, 0.0, -30.0])          # shadow zone: no ray in the unsplit ice
            ref = SpecializedRayTracer(src, dst, AntarcticIce()).solutions
        ltr = LayeredRayTracer(src, dst, lay)
        sols = ltr.solutions
        where = 'exponential ice split at %g: src=%s dst=%s' % (cut, list(src), list(dst))
        if bool(ltr.exists) != (len(sols) > 0):
            raise Divergence(where + ' exists', len(sols) > 0, bool(ltr.exists))
        live = [s for s in sols if abs(s.fresnel[0]) > 1e-9 or abs(s.fresnel[1]) > 1e-9]
        if not ref and live:
            raise Divergence(where + ' solutions carrying amplitude where the unsplit ice has none', 0, len(live))
        for r in ref:
            m = [s for s in sols if abs(s.path_length - r.path_length) < 1e-4 * r.path_length and abs(s.tof - r.tof) < 1e-4 * r.tof]
            if not m:
                raise Divergence(where + ' unsplit solution reproduced', (float(r.path_length), float(r.tof)),
                                 [(float(s.path_length), float(s.tof)) for s in sols])
            # the reproduced solution must be a proper chain (solutions that reflect off the artificial
            # boundary carry zero amplitude and are numerical artefacts of the root search: not examined)
            check_chain(where, m[0], lay, src, dst, tol=1e-4)
        out += 1
    return out
