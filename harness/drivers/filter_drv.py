"""Driver binding spec/Filter.tla to pyrex.signals.Signal.filter_frequencies (C05).

Three real signals a, b, c = a + K b over the same grid are filtered with the response of the spec's
integer FIR kernel (vectorised, scalar-only or positive-frequency-only variant); after every filter the
sample values must equal the integers of the spec.  The same behaviour is run on several grids
(steps from 1e-10 s to 1 s, negative / huge offsets): the result must not depend on the grid position.
"""
import numpy as np
from pyrex.signals import Signal, FunctionSignal
from vlib.core import Divergence

TINY = 1e-12
GRIDS = [(1.0, 0.0), (0.5, -7.0), (1e-10, 3e-6), (1.25e-9, -4e-8), (1.0, 1e6), (2.0, 1.0), (1e-9 / 3, 0.0), (1.2345678e-10, 5e-9)]


def response(h, dt, variant):
    taps = [(int(d), float(g)) for d, g in h]

    def H(f):
        f = np.asarray(f, dtype=float)
        out = np.zeros(f.shape, dtype=complex)
        for d, g in taps:
            out = out + g * np.exp(-2j * np.pi * f * d * dt)
        return out
    if variant == 'vec':
        def fn(f):
            return H(f)
    elif variant == 'scalar':
        def fn(f):
            if np.ndim(f) != 0:
                raise TypeError('scalar frequencies only')
            return complex(H(f))
    elif variant == 'table':
        cache = {}

        def fn(f):     # a tabulated response: the same stored complex array is handed out for the same frequencies
            f = np.asarray(f, dtype=float)
            key = (f.shape, float(f.flat[0]) if f.size else 0.0, float(f.flat[-1]) if f.size else 0.0, float(np.sum(f)))
            if key not in cache:
                cache[key] = np.asarray(H(f), dtype=np.complex128)
                cache[key + ('check',)] = cache[key].copy()
            if not np.array_equal(cache[key], cache[key + ('check',)]):
                raise AssertionError('the filter modified the array its response function handed out')
            return cache[key]
    elif variant == 'narrow':
        def fn(f):     # scalar-only, and every value returned in the narrowest Python type that holds it (int at DC, float where real)
            if np.ndim(f) != 0:
                raise TypeError('scalar frequencies only')
            v = complex(H(f))
            if abs(v.imag) < 1e-15 * max(1.0, abs(v.real)):
                return int(round(v.real)) if abs(v.real - round(v.real)) < 1e-15 * max(1.0, abs(v.real)) else float(v.real)
            return v
    else:
        def fn(f):     # defined for non-negative frequencies only; force_real must supply the rest
            f = np.asarray(f, dtype=float)
            if np.any(f < 0):
                raise AssertionError('response evaluated at a negative frequency')
            return H(f)
    fn.__name__ = 'fir_%s' % variant
    return fn


class FilterDriver:
    def __init__(self):
        self.applied = 0
        self.known = []

    def stats(self):
        st = {'filters_applied_on_real_signals': self.applied}
        self.applied = 0
        return st

    def cleanup(self):
        self.sets = []

    def reset(self, st):
        n = st['N']
        self.cur = {k: [float(x) for x in st[k]] for k in 'abc'}
        self.sets = []
        for dt, t0 in GRIDS:
            t = t0 + np.arange(n) * dt
            self.sets.append((dt, [Signal(t, [float(x) for x in st[k]]) for k in ('a', 'b', 'c')]))
        # the first signal again, scaled by 1e-12 (a field in V/m is of that order): filtering is homogeneous at every scale
        self.tiny = [(dt, Signal(t0 + np.arange(n) * dt, [float(x) * TINY for x in st['a']])) for dt, t0 in GRIDS[:3]]
        self.comp = {0: 1.0}
        self.orig = {k: [float(x) for x in st[k]] for k in 'abc'}
        # function-backed replicas on the first two grids: fc is a genuine sum fa + K*fb whose right operand is kept
        self.fsets = []
        for dt, t0 in GRIDS[:2]:
            t = t0 + np.arange(n) * dt

            def table(vals, tt=t):
                vals = np.array([float(x) for x in vals])
                return lambda x: np.interp(x, tt, vals, left=0.0, right=0.0)
            fa, fb = FunctionSignal(t, table(st['a'])), FunctionSignal(t, table(st['b']))
            fbk = fb * 2.0
            fc = fa + fbk
            self.fsets.append((dt, {'a': fa, 'b': fb, 'bk': fbk, 'c': fc}))

    @staticmethod
    def dropped(h, x):
        n = len(x)
        return np.array([sum(g * (x[m - d] if 0 <= m - d < n else 0.0) for d, g in h) for m in range(n)], dtype=float)

    def step(self, label, st):
        last = st['last']
        h, variant, fr = last['h'], last['variant'], bool(last['force_real'])
        self.prev = getattr(self, 'cur', None) or {}
        for dt, sigs in self.sets:
            for name, s in zip('abc', sigs):
                times_before = s.times.copy()
                s.filter_frequencies(response(h, dt, variant), force_real=fr)
                self.applied += 1
                want = np.array([float(x) for x in st[name]])
                got = np.asarray(s.values, dtype=float)
                scale = max(1.0, np.max(np.abs(want))) * len(want) * sum(abs(g) for _, g in h) + 1
                if len(got) != len(want) or not np.allclose(got, want, rtol=0, atol=1e-9 * scale):
                    if last['wraps'] and np.allclose(got, self.dropped(h, self.prev[name]), rtol=0, atol=1e-9 * scale):
                        continue       # open finding D10 repaired: samples leaving the window are dropped
                    raise Divergence('signal %s after %s response %s force_real=%s on grid dt=%g' % (name, variant, list(h), fr, dt),
                                     list(want), list(got))
                if not np.array_equal(s.times, times_before):
                    raise Divergence('times after filtering', list(times_before), list(s.times))
        for dt, s in self.tiny:
            s.filter_frequencies(response(h, dt, variant), force_real=fr)
            want = np.array([float(x) for x in st['a']]) * TINY
            got = np.asarray(s.values, dtype=float)
            scale = (max(1.0, np.max(np.abs(want)) / TINY) * len(want) * sum(abs(g) for _, g in h) + 1) * TINY
            if len(got) != len(want) or not np.allclose(got, want, rtol=0, atol=1e-9 * scale):
                if last['wraps'] and np.allclose(got, self.dropped(h, self.prev['a']) * TINY, rtol=0, atol=1e-9 * scale):
                    continue
                raise Divergence('signal a scaled by %g after %s response %s force_real=%s on grid dt=%g' % (TINY, variant, list(h), fr, dt),
                                 list(want), list(got))
        # function-backed signals pass ONCE through the product of all their filters (C06): the expectation is the
        # original samples convolved with the composite kernel, as long as that stays within the zero padding
        comp = {}
        for d0, g0 in self.comp.items():
            for d1, g1 in h:
                comp[d0 + int(d1)] = comp.get(d0 + int(d1), 0.0) + g0 * float(g1)
        self.comp = comp
        n0 = st['N']
        if any(abs(d_) > n0 for d_ in comp):
            self.fsets = []          # beyond the padded length the function-backed replicas are not followed
        for dt, fs in self.fsets:
            # the sum first, then its operands: filters must not leak between them
            for name in ('c', 'a', 'b', 'bk'):
                fs[name].filter_frequencies(response(h, dt, variant), force_real=fr)
                self.applied += 1
            for name in ('c', 'a', 'b', 'bk'):
                x0 = np.array(self.orig['b' if name == 'bk' else name]) * (2.0 if name == 'bk' else 1.0)
                want = self.dropped(list(comp.items()), list(x0))
                got = np.asarray(fs[name].values, dtype=float)
                scale = max(1.0, np.max(np.abs(want))) * len(want) * 8 + 1
                if len(got) != len(want) or not np.allclose(got, want, rtol=0, atol=1e-9 * scale):
                    raise Divergence('function-backed signal %s after %s response %s force_real=%s (dt=%g), composite kernel %s' % (
                        name, variant, list(h), fr, dt, sorted(comp.items())), list(want), list(got))
        self.cur = {k: [float(x) for x in st[k]] for k in 'abc'}
        if last['wraps']:
            # D10: the model (and the code) wrap taps beyond the signal length round to the start
            if list(st['a']) != list(last['expected']):
                self.known.append(('D10', 'kernel %s on %d samples wraps round' % (list(h), st['N'])))
