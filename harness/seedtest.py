#!/usr/bin/env python3
"""Confirm a seeded defect delivered by a sub-agent and run the registered check against it.

usage: seedtest.py <PROP> <worktree> <mutation-dir> <seed-id> [--tier quick]
  1. in the scratch worktree: apply patch, run the repository test suite, run the demo (must fail),
     revert, run the demo (must pass);
  2. in /repo: git apply, bin/check <PROP>, git checkout -- .  (always undone);
  3. store patch / demo / meta.json under /verif/seeded/<seed-id>/.
"""
import json
import os
import re
import shutil
import subprocess
import sys
import time

VERIF = os.path.dirname(os.path.dirname(os.path.abspath(__file__)))


def sh(cmd, cwd=None, timeout=3600, env=None):
    p = subprocess.run(cmd, shell=True, cwd=cwd, stdout=subprocess.PIPE, stderr=subprocess.STDOUT, text=True,
                       timeout=timeout, env=env)
    return p.returncode, p.stdout


def main():
    prop, wt, mdir, sid = sys.argv[1:5]
    tier = 'quick'
    if '--tier' in sys.argv:
        tier = sys.argv[sys.argv.index('--tier') + 1]
    extra_checks = []
    if '--also' in sys.argv:
        extra_checks = sys.argv[sys.argv.index('--also') + 1].split(',')
    patch = os.path.join(mdir, 'patch.diff')
    demo = os.path.join(mdir, 'demo.py')
    meta = {'property': prop, 'seed_id': sid, 'source': 'sub-agent, given only the property text and its own worktree'}
    meta['needs'] = ''
    for nm in ('notes.txt', 'note.txt'):
        if os.path.exists(os.path.join(mdir, nm)):
            meta['needs'] = open(os.path.join(mdir, nm)).read().strip()
    # 1. confirm in the scratch worktree, 2. run the check(s) against the patched tree
    sh('git checkout -- pyrex', cwd=wt)
    rc, out = sh('git apply --check %s' % patch, cwd=wt)
    if rc:
        print('patch does not apply: %s' % out)
        return 2
    sh('git apply %s' % patch, cwd=wt)
    results = {}
    try:
        rc_t, out_t = sh('/venv/bin/python -m pytest -q -p no:cacheprovider --timeout=900 -n 6 2>&1 | tail -3', cwd=wt)
        passed = re.search(r'(\d+) passed', out_t)
        failed = re.search(r'(\d+) failed', out_t)
        meta['tests_with_patch'] = out_t.strip().split('\n')[-1]
        rc_d1, out_d1 = sh('PYTHONPATH=%s /venv/bin/python %s' % (wt, demo), cwd=wt, timeout=600)
        ok_tests = bool(passed) and not failed and int(passed.group(1)) >= 1353
        if ok_tests and rc_d1 != 0:
            env = dict(os.environ, PYREX_TREE=wt)
            for pid in [prop] + extra_checks:
                t0 = time.time()
                rc_c, out_c = sh('bin/check %s --tier %s' % (pid, tier), cwd=VERIF, timeout=7200, env=env)
                viol = [l for l in out_c.split('\n') if l.startswith('VIOLATION') or l.startswith('  ')][:6]
                results[pid] = {'exit': rc_c, 'wall_s': round(time.time() - t0), 'first_lines': viol,
                                'machinery': [l for l in out_c.split('\n') if 'MACHINERY' in l][:2]}
                print('[%s] bin/check %s --tier %s -> exit %d (%ds)' % (sid, pid, tier, rc_c, time.time() - t0))
                for l in viol[:4]:
                    print('     ' + l[:260])
    finally:
        sh('git checkout -- pyrex', cwd=wt)
    rc_d0, out_d0 = sh('PYTHONPATH=%s /venv/bin/python %s' % (wt, demo), cwd=wt, timeout=600)
    meta['demo_exit_with_patch'] = rc_d1
    meta['demo_exit_without_patch'] = rc_d0
    meta['demo_output_with_patch'] = out_d1.strip()[-600:]
    confirmed = ok_tests and rc_d1 != 0 and rc_d0 == 0
    meta['confirmed'] = confirmed
    print('[%s] tests: %s | demo with patch exit %d, without %d | confirmed=%s' % (sid, meta['tests_with_patch'], rc_d1, rc_d0, confirmed))
    meta['check_results'] = results
    meta['detected'] = any(v['exit'] == 1 for v in results.values())
    meta['ran'] = ('patch applied (git apply) in a scratch worktree of /repo at the same commit; repository tests; demo; '
                   'PYREX_TREE=<worktree> bin/check %s --tier %s; worktree reverted (equivalent to applying in /repo, which stays untouched)' % (prop, tier))
    # 3. store
    dst = os.path.join(VERIF, 'seeded', sid)
    os.makedirs(dst, exist_ok=True)
    shutil.copy(patch, os.path.join(dst, 'patch.diff'))
    src = open(demo).read().replace(wt, "' + __import__('os').environ.get('PYREX_TREE', '/repo') + '")
    # the demos insert the worktree path as a literal: make it configurable
    src = open(demo).read()
    src = re.sub(r"(['\"])" + re.escape(wt) + r"(['\"])", "__import__('os').environ.get('PYREX_TREE', '/repo')", src)
    open(os.path.join(dst, 'demo.py'), 'w').write(src)
    json.dump(meta, open(os.path.join(dst, 'meta.json'), 'w'), indent=1)
    return 0


if __name__ == '__main__':
    sys.exit(main())
